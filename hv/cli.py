import argparse
import os
import sys

from .framework import run_check


def main() -> int:
    ap = argparse.ArgumentParser()
    ap.add_argument("prop")
    ap.add_argument("--tier", default=os.environ.get("VERIF_TIER", "quick"))
    ap.add_argument("--replay")
    ap.add_argument("-v", action="store_true")
    ap.add_argument("--jobs", type=int)
    a = ap.parse_args()
    seed = int(os.environ.get("VERIF_SEED", "0") or 0)
    return run_check(a.prop.lower(), a.tier, seed, a.replay, a.jobs, a.v)


if __name__ == "__main__":
    sys.exit(main())
