"""Check framework: plan cases -> shard over worker subprocesses -> judge -> evidence.

A check module (hv/checks/cXX.py) defines
    ID, LEVEL, RULE, ASSUMPTIONS, REQUIRED (counter names that must be > 0)
    plan(tier, seed) -> list of JSON-able case dicts
    run_case(case) -> {"viol": [{"key","what","detail"}], "counters": {...},
                       "sigs": [str...]  (signatures of distinct non-trivial cases),
                       "sample": any}
    optional finish(agg) -> extra coverage keys
Verdicts are three-valued: exit 0 held / exit 1 VIOLATION / exit 2 INCONCLUSIVE.
"""
from __future__ import annotations

import fnmatch
import hashlib
import importlib
import json
import os
import signal
import subprocess
import sys
import time
import traceback

from . import VERIF, REPO

PY = sys.executable
KNOWN_FILE = os.path.join(VERIF, "known_findings.json")


class WallTimeout(BaseException):
    pass


def load_known(prop: str):
    try:
        data = json.load(open(KNOWN_FILE))
    except FileNotFoundError:
        return []
    return [e for e in data.get("findings", []) if e["property"] == prop]


def classify(prop: str, key: str, known):
    for e in known:
        if e.get("status") == "known" and fnmatch.fnmatchcase(key, e["key"]):
            return e
    return None


def _jsonable(x, depth=0):
    if depth > 8:
        return repr(x)[:200]
    if isinstance(x, (str, int, float, bool)) or x is None:
        return x
    if isinstance(x, (bytes, bytearray)):
        return bytes(x[:300]).decode("latin1")
    if isinstance(x, dict):
        return {str(k): _jsonable(v, depth + 1) for k, v in list(x.items())[:200]}
    if isinstance(x, (list, tuple, set, frozenset)):
        return [_jsonable(v, depth + 1) for v in list(x)[:200]]
    return repr(x)[:300]


# ---------------------------------------------------------------------------------
# worker side
# ---------------------------------------------------------------------------------
def worker_main(argv) -> int:
    check_name, case_file, out_file = argv[:3]
    mod = importlib.import_module(f"hv.checks.{check_name}")
    cases = json.load(open(case_file))
    per_case = float(os.environ.get("HV_CASE_TIMEOUT", "120"))
    results = []

    def on_alarm(signum, frame):
        raise WallTimeout()

    signal.signal(signal.SIGALRM, on_alarm)
    cover = _start_cover(check_name)
    for case in cases:
        t0 = time.time()
        try:
            signal.setitimer(signal.ITIMER_REAL, per_case)
            try:
                res = mod.run_case(case)
            finally:
                signal.setitimer(signal.ITIMER_REAL, 0)
        except WallTimeout:
            res = {"viol": [], "counters": {}, "inconclusive": f"wall-clock {per_case}s exceeded"}
        except Exception as exc:
            res = None
            e = exc
            # a Livelock verdict may arrive wrapped in exception groups
            stack = [exc]
            while stack and res is None:
                x = stack.pop()
                if type(x).__name__ == "Livelock":
                    res = {"viol": [{"key": "livelock", "what": str(x), "detail": {"case": case}}], "counters": {}}
                stack.extend(getattr(x, "exceptions", []) or [])
            if res is None:
                res = {"viol": [], "counters": {}, "error": "".join(traceback.format_exception(e))[-3000:]}
        except BaseException as exc:  # harness error
            if isinstance(exc, KeyboardInterrupt):
                raise
            res = None
            stack = [exc]
            while stack and res is None:
                x = stack.pop()
                if type(x).__name__ == "Livelock":
                    res = {"viol": [{"key": "livelock", "what": str(x), "detail": {"case": case}}], "counters": {}}
                elif isinstance(x, WallTimeout):
                    # the alarm went off inside a task: it arrives wrapped in the task group's exception group
                    res = {"viol": [], "counters": {}, "inconclusive": f"wall-clock {per_case}s exceeded"}
                stack.extend(getattr(x, "exceptions", []) or [])
            if res is None:
                res = {"viol": [], "counters": {}, "error": "".join(traceback.format_exception(exc))[-3000:]}
        res["case"] = case
        res["wall"] = time.time() - t0
        sigs = res.pop("sigs", [])
        out = _jsonable(res)
        out["sigs"] = [s if isinstance(s, str) else json.dumps(_jsonable(s), sort_keys=True) for s in sigs]
        results.append(out)
    with open(out_file, "w") as f:
        json.dump(results, f)
    if cover is not None:
        cover()
    return 0


def _start_cover(check_name):
    """HV_COVER=<dir>: record which lines of the tree under test this worker executed (tools/coverage.py sums them up).

    Reporting aid only - it tells me which paths no workload drives; it takes no part in any verdict."""
    d = os.environ.get("HV_COVER")
    if not d:
        return None
    import httpcore
    base = os.path.dirname(httpcore.__file__) + os.sep
    seen: set = set()
    m = sys.monitoring
    tool = 2

    def cb(code, line):
        fn = code.co_filename
        if fn.startswith(base):
            seen.add((fn[len(base):], line))
        return m.DISABLE

    m.use_tool_id(tool, "hv-cover")
    m.register_callback(tool, m.events.LINE, cb)
    m.set_events(tool, m.events.LINE)

    def dump():
        m.set_events(tool, 0)
        os.makedirs(d, exist_ok=True)
        with open(os.path.join(d, f"{check_name}-{os.getpid()}.json"), "w") as f:
            json.dump(sorted(seen), f)
    return dump


# ---------------------------------------------------------------------------------
# parent side
# ---------------------------------------------------------------------------------
def run_check(check_name: str, tier: str, seed: int, replay: str | None = None, jobs: int | None = None,
              verbose: bool = False) -> int:
    mod = importlib.import_module(f"hv.checks.{check_name}")
    prop = mod.ID
    t0 = time.time()
    jobs = jobs or int(os.environ.get("HV_JOBS", "16"))
    workdir = os.path.join(VERIF, "work", f"{check_name}-{os.getpid()}")
    os.makedirs(workdir, exist_ok=True)
    if replay:
        rec = json.load(open(replay))
        cases = [rec["case"]]
    else:
        cases = mod.plan(tier, seed)
    n = max(1, min(jobs, len(cases)))
    shards = [cases[i::n] for i in range(n)]
    procs = []
    env = dict(os.environ)
    env["PYTHONPATH"] = VERIF + os.pathsep + env.get("PYTHONPATH", "")
    env["PYTHONDONTWRITEBYTECODE"] = "1"
    env["PYTHONHASHSEED"] = "0"
    env.setdefault("HV_REPO", REPO)
    shard_timeout = float(os.environ.get("HV_SHARD_TIMEOUT", "900" if tier == "quick" else "7200"))
    for i, sh in enumerate(shards):
        cf = os.path.join(workdir, f"cases{i}.json")
        of = os.path.join(workdir, f"out{i}.json")
        json.dump(sh, open(cf, "w"))
        p = subprocess.Popen([PY, "-X", "faulthandler", "-m", "hv.worker", check_name, cf, of], env=env,
                             cwd=VERIF, stdout=subprocess.PIPE, stderr=subprocess.STDOUT)
        procs.append((p, of, sh))
    results = []
    inconclusive = []
    deadline = time.time() + shard_timeout
    for p, of, sh in procs:
        try:
            out, _ = p.communicate(timeout=max(1.0, deadline - time.time()))
        except subprocess.TimeoutExpired:
            p.kill()
            out, _ = p.communicate()
            inconclusive.append(f"worker timed out after {shard_timeout}s")
        if p.returncode != 0 or not os.path.exists(of):
            inconclusive.append(f"worker exit {p.returncode}: {out.decode('utf8', 'replace')[-1500:]}")
            continue
        results.extend(json.load(open(of)))
    for f in os.listdir(workdir):
        os.unlink(os.path.join(workdir, f))
    os.rmdir(workdir)

    counters: dict = {}
    sigs = set()
    samples = []
    viols = []
    errors = []
    for r in results:
        for k, v in r.get("counters", {}).items():
            if isinstance(v, (int, float)):
                counters[k] = counters.get(k, 0) + v
        for s in r.get("sigs", []):
            sigs.add(s if isinstance(s, str) else json.dumps(s, sort_keys=True))
        if r.get("sample") is not None and len(samples) < 6:
            samples.append(r["sample"])
        for v in r.get("viol", []):
            viols.append((v, r["case"]))
        if r.get("error"):
            errors.append((r["error"], r["case"]))
        if r.get("inconclusive"):
            inconclusive.append(f"{r['inconclusive']} case={json.dumps(r['case'])[:300]}")

    known = load_known(prop)
    known_hit: dict = {}
    known_keys: dict = {}
    new_viol = []
    for v, case in viols:
        e = classify(prop, v["key"], known)
        if e is not None:
            known_hit.setdefault(e["key"], [e, 0])[1] += 1
            kk = known_keys.setdefault(e["key"], {})
            kk[v["key"]] = kk.get(v["key"], 0) + 1
        else:
            new_viol.append((v, case))

    os.makedirs(os.path.join(VERIF, "replays"), exist_ok=True)
    printed = set()
    for v, case in new_viol:
        if v["key"] in printed:
            continue
        printed.add(v["key"])
        digest = hashlib.sha1((v["key"] + json.dumps(case, sort_keys=True)).encode()).hexdigest()[:12]
        path = os.path.join(VERIF, "replays", f"{prop}-{digest}.json")
        json.dump({"property": prop, "check": check_name, "violation": v, "case": case}, open(path, "w"), indent=1)
        print(f"VIOLATION property={prop} replay={path}")
        print(f"  key={v['key']}\n  what={v.get('what')}\n  detail={json.dumps(v.get('detail'))[:1500]}")
    for key, (e, cnt) in sorted(known_hit.items()):
        print(f"KNOWN-FINDING: property={prop} {e['what']} [key={key}; {cnt} witnesses this run]")
    for err, case in errors[:5]:
        print(f"HARNESS-ERROR property={prop} case={json.dumps(case)[:300]}\n{err}")
    for msg in inconclusive[:5]:
        print(f"INCONCLUSIVE property={prop} reason={msg}")

    missing = [c for c in getattr(mod, "REQUIRED", []) if counters.get(c, 0) <= 0]
    if missing and not replay:
        print(f"INCONCLUSIVE property={prop} reason=deciding monitors never evaluated: {missing}")

    wall = time.time() - t0
    coverage = {
        "evaluations": len(results),
        "distinct_nontrivial": len(sigs),
        "rule": mod.RULE,
        "samples": samples[:6] or [None],
        "counters": counters,
        "known_findings_witnessed": {k: c for k, (e, c) in known_hit.items()},
        # the concrete violation keys that each listed pattern covered in this run (nothing else is suppressed)
        "known_findings_concrete_keys": known_keys,
        "violating_keys": sorted(printed),
        "inconclusive": inconclusive[:10],
        "harness_errors": len(errors),
        "exhaustive": bool(getattr(mod, "EXHAUSTIVE", False)),
    }
    if hasattr(mod, "finish"):
        coverage.update(mod.finish(counters, results) or {})
    if mod.LEVEL == "translation_validation":
        coverage.setdefault("programs", len(results))
        coverage.setdefault("disagreements_checked", counters.get("comparisons", 0))
    ev = {
        "property_id": prop,
        "tier": tier,
        "seed": seed,
        "level": mod.LEVEL,
        "coverage": coverage,
        "assumptions": list(getattr(mod, "ASSUMPTIONS", [])),
        "wall_s": round(wall, 2),
        "violations": len(new_viol),
    }
    if not replay:
        # runs against a scratch tree (mutants, seeded breaks, coverage) set HV_EVIDENCE_DIR so that the committed
        # evidence, which must describe /repo itself, is not overwritten
        evdir = os.environ.get("HV_EVIDENCE_DIR") or os.path.join(VERIF, "evidence")
        os.makedirs(evdir, exist_ok=True)
        with open(os.path.join(evdir, f"{prop}.json"), "w") as f:
            json.dump(ev, f, indent=1)
    summary = {k: counters[k] for k in sorted(counters)}
    print(f"{prop} {tier} seed={seed}: cases={len(results)} distinct_nontrivial={len(sigs)} "
          f"violations={len(new_viol)} known={sum(c for _, c in known_hit.values())} wall={wall:.1f}s")
    if verbose or os.environ.get("HV_VERBOSE"):
        print(json.dumps(summary, indent=1))
    if new_viol:
        return 1
    if errors or inconclusive or (missing and not replay):
        return 2
    return 0
