"""HTTP/2 origin endpoint: the `h2` library in the *server* role (inbound validation the
client never runs) plus an independent frame ledger (own 9-byte frame-header parser, own
window and open-stream accounting). Both must agree; the ledger is what evidence reports.

Script keys (origin.h2_script):
  settings        {SettingCodes: value} sent in the server's first SETTINGS
  settings_delay  virtual delay of the first SETTINGS
  win             upload credit policy: auto | drip:<n> | stream-first | conn-first | late |
                  big-once | none
  hold            K: hold all responses until K requests have fully arrived
  order           'fifo' | 'reverse' | 'interleave' (DATA round-robin across held streams)
  data_chunk      size of response DATA frames
  after_end       'ping' | 'wu': a PING / one byte of connection credit follows each response 10 ms later
  actions         [{'when': ('head'|'end', n), 'do': 'goaway'|'rst'|'settings'|'ping'|'ping-gate'|'early'|'close',
                    ...args}]  n = ordinal of the request on this connection; optional 'conn': k restricts
                    the action to the k-th connection the origin accepted
"""
from __future__ import annotations

import h2.config
import h2.connection
import h2.errors
import h2.events
import h2.exceptions
import h2.settings

from .endpoints import Req, Resp
from .simnet import CALL

SC = h2.settings.SettingCodes
DEFAULT_WINDOW = 65535
DEFAULT_FRAME = 16384
INF = 10 ** 9


class FrameLedger:
    """Independent accounting of what the client put on the wire."""

    def __init__(self, srv: "H2Server") -> None:
        self.srv = srv
        self.buf = bytearray()
        self.preface_left = 24
        self.frames = 0
        self.by_type: dict[int, int] = {}
        self.conn_window = DEFAULT_WINDOW
        self.stream_window: dict[int, int] = {}
        self.init_window_allowed = DEFAULT_WINDOW  # most permissive until ACK
        self.init_window_acked = DEFAULT_WINDOW
        self.max_frame_allowed = DEFAULT_FRAME
        self.max_frame_acked = DEFAULT_FRAME
        self.pending_settings: list[dict] = []  # server SETTINGS not yet ACKed
        self.open: dict[int, dict] = {}  # stream id -> {'c_end':bool,'s_end':bool}
        self.max_open_seen = 0
        self.violations: list[dict] = []
        self.data_bytes: dict[int, int] = {}
        self.min_conn_window = DEFAULT_WINDOW
        self.last_stream = 0
        self.settings_acks = 0
        self.opened_after_goaway: list[int] = []
        self.cont_expect = None
        self.mcs_acked = None
        self.refused: set[int] = set()
        self.first_settings: dict = {}

    def viol(self, kind: str, **kw) -> None:
        rec = {"kind": kind, **kw}
        self.violations.append(rec)
        self.srv.origin.anomaly("h2-ledger:" + kind, tr=self.srv.tr.id, **kw)

    # server-side events that affect what the client may do ----------------------
    def server_sent_settings(self, settings: dict, wire_end: int) -> None:
        rec = {"settings": dict(settings), "end": wire_end}
        self.pending_settings.append(rec)
        if SC.INITIAL_WINDOW_SIZE in settings:
            self.init_window_allowed = max(self.init_window_allowed, settings[SC.INITIAL_WINDOW_SIZE])
        if SC.MAX_FRAME_SIZE in settings:
            self.max_frame_allowed = max(self.max_frame_allowed, settings[SC.MAX_FRAME_SIZE])

    def server_sent_window_update(self, stream_id: int, inc: int) -> None:
        if stream_id == 0:
            self.conn_window += inc
        elif stream_id in self.stream_window:
            self.stream_window[stream_id] += inc

    def server_ended(self, stream_id: int) -> None:
        st = self.open.get(stream_id)
        if st is not None:
            st["s_end"] = True
            if st["c_end"]:
                del self.open[stream_id]

    def server_reset(self, stream_id: int) -> None:
        self.open.pop(stream_id, None)
        self.refused.add(stream_id)  # frames the client sent before it has read the RST_STREAM are legitimate

    # limits in force ------------------------------------------------------------
    def stream_limit(self) -> int:
        srv = self.srv
        tr = srv.tr
        if srv.first_settings_end is None or tr.consumed < srv.first_settings_end:
            return 1
        if self.mcs_acked is None:
            # the first SETTINGS has reached the client: its value (or "unlimited") is in force
            self.mcs_acked = self.first_settings.get(SC.MAX_CONCURRENT_STREAMS, INF)
        cands = [self.mcs_acked]
        for rec in self.pending_settings:
            v = rec["settings"].get(SC.MAX_CONCURRENT_STREAMS)
            if v is not None:
                cands.append(v)
        return min(max(cands), 100)

    # client bytes -----------------------------------------------------------------
    def feed(self, data: bytes) -> None:
        if self.preface_left:
            n = min(self.preface_left, len(data))
            self.preface_left -= n
            data = data[n:]
        self.buf += data
        while len(self.buf) >= 9:
            length = int.from_bytes(self.buf[0:3], "big")
            if len(self.buf) < 9 + length:
                return
            ftype = self.buf[3]
            flags = self.buf[4]
            sid = int.from_bytes(self.buf[5:9], "big") & 0x7FFFFFFF
            payload = bytes(self.buf[9:9 + length])
            del self.buf[:9 + length]
            self.frames += 1
            self.by_type[ftype] = self.by_type.get(ftype, 0) + 1
            self._frame(ftype, flags, sid, length, payload)

    empty_data_frames = 0

    def _frame(self, ftype, flags, sid, length, payload) -> None:
        if length > self.max_frame_allowed:
            self.viol("frame-too-large", type=ftype, length=length, allowed=self.max_frame_allowed)
        if ftype == 0x0:  # DATA
            st = self.open.get(sid)
            if (st is None or st["c_end"]) and sid not in self.refused:
                self.viol("data-on-closed-stream", stream=sid)
            self.conn_window -= length
            self.min_conn_window = min(self.min_conn_window, self.conn_window)
            if sid in self.stream_window:
                self.stream_window[sid] -= length
                slack = self.init_window_allowed - self.init_window_acked
                if length and self.stream_window[sid] + slack < 0:  # (an empty DATA frame needs no window)
                    self.viol("stream-window-exceeded", stream=sid, window=self.stream_window[sid])
            if length and self.conn_window < 0:
                self.viol("connection-window-exceeded", window=self.conn_window)
            if not length and not flags & 0x1:
                self.empty_data_frames += 1
            self.data_bytes[sid] = self.data_bytes.get(sid, 0) + length
            if flags & 0x1 and st is not None:
                if st["c_end"]:
                    self.viol("stream-ended-twice", stream=sid)
                st["c_end"] = True
                if st["s_end"]:
                    del self.open[sid]
        elif ftype == 0x1:  # HEADERS
            if sid not in self.open and sid > self.last_stream:
                self.last_stream = sid
                self.open[sid] = {"c_end": bool(flags & 0x1), "s_end": False}
                self.stream_window[sid] = self.init_window_acked
                n = len(self.open)
                self.max_open_seen = max(self.max_open_seen, n)
                lim = self.stream_limit()
                self.srv.stream_limit_checks += 1
                if n > lim:
                    self.viol("too-many-open-streams", open=n, limit=lim, stream=sid)
                if self.srv.goaway_consumed():
                    self.opened_after_goaway.append(sid)
                    self.viol("stream-opened-after-goaway", stream=sid)
            elif sid in self.open and flags & 0x1:
                st = self.open[sid]
                st["c_end"] = True
        elif ftype == 0x3:  # RST_STREAM
            self.open.pop(sid, None)
        elif ftype == 0x4:  # SETTINGS
            if flags & 0x1:
                self.settings_acks += 1
                if self.pending_settings:
                    rec = self.pending_settings.pop(0)
                    s = rec["settings"]
                    if SC.INITIAL_WINDOW_SIZE in s:
                        delta = s[SC.INITIAL_WINDOW_SIZE] - self.init_window_acked
                        for k in self.stream_window:
                            self.stream_window[k] += delta
                        self.init_window_acked = s[SC.INITIAL_WINDOW_SIZE]
                    if SC.MAX_FRAME_SIZE in s:
                        self.max_frame_acked = s[SC.MAX_FRAME_SIZE]
                    if SC.MAX_CONCURRENT_STREAMS in s:
                        self.mcs_acked = s[SC.MAX_CONCURRENT_STREAMS]
                    elif self.mcs_acked is None:
                        self.mcs_acked = INF
                    self.init_window_allowed = max(
                        [self.init_window_acked] + [r["settings"][SC.INITIAL_WINDOW_SIZE]
                                                    for r in self.pending_settings
                                                    if SC.INITIAL_WINDOW_SIZE in r["settings"]])
                    self.max_frame_allowed = max(
                        [self.max_frame_acked] + [r["settings"][SC.MAX_FRAME_SIZE]
                                                  for r in self.pending_settings
                                                  if SC.MAX_FRAME_SIZE in r["settings"]])


class H2Server:
    def __init__(self, oc, tr) -> None:
        self.oc = oc
        self.origin = oc.origin
        self.tr = tr
        self.script = dict(self.origin.h2_script or {})
        self.conn_index = len(self.origin.conns) - 1 if oc in self.origin.conns else len(self.origin.conns)
        cfg = h2.config.H2Configuration(client_side=False, header_encoding=None)
        self.conn = h2.connection.H2Connection(config=cfg)
        self.ledger = FrameLedger(self)
        self.started = False
        self.reqs: dict[int, Req] = {}
        self.n = 0
        self.ended = 0
        self.pending_out: dict[int, dict] = {}  # stream id -> {'data': bytes, 'pos': int, ...}
        self.held: list[tuple[Req, Resp]] = []
        self.released = False
        self.first_settings_end: int | None = None
        self.advertised_max_streams_acked: int | None = None  # None = unlimited (no setting)
        self.stream_limit_checks = 0
        self.goaway_end: int | None = None
        self.goaway_last: int | None = None
        self.errors: list = []
        self.upload_credit_owed: dict[int, int] = {}
        self.conn_credit_owed = 0
        self.big_once_done = False
        self.closed = False
        self.protocol_error = None
        self.answered_ordinals: set[int] = set()
        self.deferred: dict[int, list] = {}
        self.out_frames = 0
        self.deferred_settings: list = []
        self.mut_done = False
        self.mut_close = False
        self.gated = False
        self.ping_gates = 0
        self.no_credit: set[int] = set()

    # -------------------------------------------------------------------------
    def goaway_consumed(self) -> bool:
        return self.goaway_end is not None and self.tr.consumed >= self.goaway_end

    def _flush(self, delay: float = 0.0) -> None:
        if self.gated:
            return  # 'ping-gate': nothing leaves until the client has acknowledged the PING
        data = self.conn.data_to_send()
        if data:
            mut = self.script.get("mutate")
            if mut is not None:
                data = self._mutate(data, mut)
            self.tr.send(data, delay)
            if self.mut_close:
                self.tr.server_close(0.5)
                self.closed = True

    def _mutate(self, data: bytes, mut: dict) -> bytes:
        """Frame-level mutation of the outgoing byte stream (C15). mut: {'frame': i, 'kind': ..., 'seed': n}"""
        import random as _random
        out = bytearray()
        pos = 0
        while pos + 9 <= len(data):
            length = int.from_bytes(data[pos:pos + 3], "big")
            frame = bytearray(data[pos:pos + 9 + length])
            pos += 9 + length
            idx = self.out_frames
            self.out_frames += 1
            if idx == mut["frame"] and not self.mut_done:
                self.mut_done = True
                self.mut_close = True  # the peer ends its input 0.5 s after the flush that carried the mutation
                r = _random.Random(mut.get("seed", 0))
                kind = mut["kind"]
                if kind == "type":
                    frame[3] = r.choice([0, 1, 2, 3, 4, 5, 6, 7, 8, 9, 10, 12, 255])
                elif kind == "flags":
                    frame[4] = r.randrange(256)
                elif kind == "stream":
                    sid = r.choice([0, 1, 2, 3, 5, 7, 99, 2 ** 31 - 1])
                    frame[5:9] = sid.to_bytes(4, "big")
                elif kind == "length":
                    newlen = max(0, length + r.choice([-3, -1, 1, 5, 100, 2 ** 20]))
                    frame[0:3] = min(newlen, 2 ** 24 - 1).to_bytes(3, "big")
                elif kind == "payload":
                    for i in range(9, len(frame)):
                        frame[i] = r.randrange(256)
                elif kind == "bitflip":
                    for _ in range(r.randint(1, 4)):
                        if len(frame) > 0:
                            i = r.randrange(len(frame))
                            frame[i] ^= 1 << r.randrange(8)
                elif kind == "truncate":
                    out += frame[:r.randrange(len(frame))]
                    self.mut_close = True
                    return bytes(out)
                elif kind == "drop":
                    frame = bytearray()
                elif kind == "dup":
                    frame = frame + frame
                elif kind == "inject":
                    frame = bytearray(mut_inject(r, mut.get("what"), self)) + frame
                elif kind == "inject-after":
                    frame = frame + bytearray(mut_inject(r, mut.get("what"), self))
                elif kind == "garbage":
                    frame = bytearray(r.randrange(256) for _ in range(r.randint(1, 64)))
            out += frame
        out += data[pos:]
        return bytes(out)

    def _start(self) -> None:
        self.started = True
        settings = dict(self.script.get("settings", {SC.MAX_CONCURRENT_STREAMS: 100}))
        # Window / frame-size settings go in a second SETTINGS frame through update_settings,
        # so that the h2 server role keeps accepting the defaults until the client ACKs
        # (a client may legitimately send 65,535 bytes before it has read any SETTINGS).
        second = {k: settings.pop(k) for k in (SC.INITIAL_WINDOW_SIZE, SC.MAX_FRAME_SIZE)
                  if k in settings}
        self.conn.local_settings = h2.settings.Settings(client=False, initial_values=settings)
        self.conn.initiate_connection()
        delay = self.script.get("settings_delay", 0.0)
        self.ledger.first_settings = dict(settings)
        self.ledger.server_sent_settings(settings, 0)
        self._flush(delay)
        self.first_settings_end = self.tr.produced
        if second:
            self.conn.update_settings(second)
            self.ledger.server_sent_settings(second, 0)
            self._flush(delay)

    def feed(self, tr, data: bytes) -> None:
        if self.closed:
            return
        if not self.started:
            self._start()
        self.ledger.feed(data)
        try:
            events = self.conn.receive_data(data)
        except h2.exceptions.ProtocolError as exc:
            self.protocol_error = exc
            self.origin.anomaly("h2-server-role-error", tr=tr.id, exc=type(exc).__name__, msg=str(exc))
            self._flush()
            tr.server_close()
            self.closed = True
            return
        for ev in events:
            self._event(ev)
        self._pump()
        self._flush()

    def on_client_close(self, tr) -> None:
        self.closed = True

    # -------------------------------------------------------------------------
    def _event(self, ev) -> None:
        o = self.origin
        if isinstance(ev, h2.events.RequestReceived):
            req = Req()
            req.proto = "h2"
            req.stream_id = ev.stream_id
            req.tr = self.tr.id
            req.ordinal = self.n
            req.layer = len(self.tr.layers)
            req.via = self.oc.via
            req.call = CALL.get()
            req.t_head = o.net.now()
            req.tls = self.oc.tls_done
            req.tls_info = self.tr.layers[-1] if (self.oc.tls_done and self.tr.layers) else None
            req.alpn = self.oc.alpn
            self.n += 1
            hdrs = [(bytes(k), bytes(v)) for k, v in ev.headers]
            req.h2_headers = hdrs
            for k, v in hdrs:
                if k == b":method":
                    req.method = v
                elif k == b":path":
                    req.target = v
                elif not k.startswith(b":"):
                    req.headers.append((k, v))
            tok = req.header(b"x-token")
            req.token = tok[0] if tok else None
            self.reqs[ev.stream_id] = req
            if self.goaway_last is not None and ev.stream_id > self.goaway_last:
                req.dropped = True
                req.refused_by_goaway = True
                self.ledger.refused.add(ev.stream_id)
            o.requests.append(req)
            o.net.log("req.head", origin=o.name, tr=self.tr.id, token=req.token, ordinal=req.ordinal,
                      layer=req.layer, method=req.method, target=req.target, stream=ev.stream_id)
            self._actions("head", req)
        elif isinstance(ev, h2.events.DataReceived):
            req = self.reqs.get(ev.stream_id)
            if req is not None:
                req.body += ev.data
                req.chunk_sizes.append(len(ev.data))
            self._credit(ev.stream_id, ev.flow_controlled_length)
        elif isinstance(ev, h2.events.StreamEnded):
            req = self.reqs.get(ev.stream_id)
            if req is not None:
                req.complete = True
                self.ended += 1
                o.net.log("req.end", origin=o.name, tr=self.tr.id, token=req.token, n=len(req.body),
                          stream=ev.stream_id)
                self._actions("end", req)
                if ev.stream_id in self.reqs and not getattr(req, "dropped", False):
                    self._answer(req)
                self._release_dep()
        elif isinstance(ev, h2.events.StreamReset):
            self.pending_out.pop(ev.stream_id, None)
            self.held = [(r, p) for r, p in self.held if r.stream_id != ev.stream_id]
        elif isinstance(ev, h2.events.SettingsAcknowledged):
            if self.deferred_settings and not self.ledger.pending_settings:
                self._send_settings(self.deferred_settings.pop(0))
        elif isinstance(ev, h2.events.PingAckReceived):
            if self.gated and bytes(ev.ping_data) == b"hvgatepg":
                self.gated = False
                self._flush()
                self._pump()
        elif isinstance(ev, h2.events.WindowUpdated):
            pass
        elif isinstance(ev, h2.events.ConnectionTerminated):
            self.closed = True

    # upload credit policies ------------------------------------------------------
    def _wu(self, sid: int, inc: int) -> None:
        if inc <= 0:
            return
        try:
            self.conn.increment_flow_control_window(inc, stream_id=sid or None)
        except (h2.exceptions.ProtocolError, KeyError, ValueError):
            return
        self.ledger.server_sent_window_update(sid, inc)

    def _dep_target(self, pol: str):
        """The stream whose own credit is withheld: the first one, or (dep:<total>:<ordinal>) the ordinal-th request."""
        parts = pol.split(":")
        if len(parts) > 2:
            hit = [k for k, r_ in self.reqs.items() if r_.ordinal == int(parts[2])]
            return hit[0] if hit else None
        return min(self.reqs) if self.reqs else None

    def _release_dep(self) -> None:
        pol = self.script.get("win", "auto")
        if not pol.startswith("dep:") or not self.reqs:
            return
        total = int(pol.split(":")[1])
        first = self._dep_target(pol)
        if first is None:
            return
        owed = self.upload_credit_owed.get(first, 0)
        if owed and sum(1 for k, r in self.reqs.items() if k != first and r.complete) >= total - 1:
            self.upload_credit_owed[first] = 0
            if first in self.conn.streams and not self.conn.streams[first].closed:
                self._wu(first, owed)
                self._flush()

    def _credit(self, sid: int, n: int) -> None:
        pol = self.script.get("win", "auto")
        if n <= 0:
            return
        if sid in self.no_credit:
            return  # answered early: the server is not interested in the rest of the body
        if self.goaway_last is not None and sid > self.goaway_last:
            # a stream the GOAWAY refused: the server ignores what still arrives on it (RFC 9113 6.8) and, about to go
            # away, returns no credit for it. (The h2 package on the client side rejects every frame that follows a
            # GOAWAY, so credit sent here would only turn the refusal into a connection error.)
            return
        stream_open = sid in self.conn.streams and not self.conn.streams[sid].closed
        if pol == "auto":
            self._wu(0, n)
            if stream_open:
                self._wu(sid, n)
        elif pol.startswith("drip:"):
            step = int(pol.split(":")[1])
            left = n
            while left > 0:
                k = min(step, left)
                self._wu(0, k)
                if stream_open:
                    self._wu(sid, k)
                self._flush()
                left -= k
        elif pol == "stream-first":
            if stream_open:
                self._wu(sid, n)
            self._flush()
            self._wu(0, n)
        elif pol == "conn-first":
            self._wu(0, n)
            self._flush()
            if stream_open:
                self._wu(sid, n)
        elif pol == "late":
            # give credit back only when a window is completely exhausted
            self.conn_credit_owed += n
            self.upload_credit_owed[sid] = self.upload_credit_owed.get(sid, 0) + n
            if self.ledger.conn_window <= 0:
                self._wu(0, self.conn_credit_owed)
                self.conn_credit_owed = 0
            if stream_open and self.ledger.stream_window.get(sid, 1) <= 0:
                self._wu(sid, self.upload_credit_owed[sid])
                self.upload_credit_owed[sid] = 0
        elif pol == "big-once":
            # one big connection-level update when the connection window is exhausted,
            # then nothing more: uploads must continue on their own
            self.conn_credit_owed += n
            if stream_open:
                self._wu(sid, n)
            if self.ledger.conn_window <= 0 and not self.big_once_done:
                self.big_once_done = True
                self._wu(0, 2 ** 30)
        elif pol.startswith("dep:"):
            # a dependency between uploads: connection credit at once, but the first stream's own credit is withheld
            # until the other uploads (dep:<how many requests in all>) have been received completely
            total = int(pol.split(":")[1])
            self._wu(0, n)
            first = self._dep_target(pol)
            if first is None:
                first = sid if len(pol.split(":")) <= 2 else -1
            done_others = sum(1 for k, r in self.reqs.items() if k != first and r.complete)
            if sid == first and done_others < total - 1:
                self.upload_credit_owed[sid] = self.upload_credit_owed.get(sid, 0) + n
            elif stream_open:
                self._wu(sid, n)
        elif pol == "hold-until-goaway":
            # no upload credit at all on the origin's first connection (uploads sit in their flow-control wait when its
            # GOAWAY arrives, and nothing but the GOAWAY wakes them); the replacement connection credits at once
            first = bool(self.origin.conns) and self.origin.conns[0] is self.oc
            if first and self.script.get("actions"):
                self.conn_credit_owed += n
                self.upload_credit_owed[sid] = self.upload_credit_owed.get(sid, 0) + n
            else:
                self._wu(0, n)
                if stream_open:
                    self._wu(sid, n)
        elif pol == "none":
            pass

    def _send_settings(self, s: dict, delay: float = 0.0) -> None:
        self.conn.update_settings(s)
        self._flush(delay)
        self.ledger.server_sent_settings(s, self.tr.produced)

    # scripted actions --------------------------------------------------------------
    def _actions(self, when: str, req: Req) -> None:
        for act in self.script.get("actions", []):
            if tuple(act["when"]) != (when, req.ordinal):
                continue
            if "conn" in act and act["conn"] != self.conn_index:
                continue  # only on the n-th connection this origin accepted
            do = act["do"]
            if do == "goaway":
                last = act.get("last")
                if last == "this":
                    last = req.stream_id
                elif last == "prev":
                    last = max(req.stream_id - 2, 0)
                elif last is None:
                    last = req.stream_id
                self.goaway(last, act.get("code", 0))
            elif do == "rst":
                sid = act.get("stream", req.stream_id)
                try:
                    self.conn.reset_stream(sid, act.get("code", 8))
                    self.ledger.server_reset(sid)
                    self.pending_out.pop(sid, None)
                    r = self.reqs.get(sid)
                    if r is not None:
                        r.dropped = True
                        r.was_reset = True
                        # a reset request will never be answered: whoever waited for it is answered now
                        self.answered_ordinals.add(r.ordinal)
                        for r2, p2 in self.deferred.pop(r.ordinal, []):
                            if not getattr(r2, "dropped", False):
                                self._send_head(r2, p2)
                    self.held = [(r2, p) for r2, p in self.held if r2.stream_id != sid]
                except h2.exceptions.ProtocolError:
                    pass
                self._flush()
            elif do == "settings":
                s = dict(act["settings"])
                if self.ledger.pending_settings:
                    # The h2 package (server role) applies a pending change on the next ACK it receives - also when that
                    # ACK is for an earlier SETTINGS frame (the initial one). A scripted change is therefore sent only
                    # once everything before it has been acknowledged, so that the server role enforces a lowered limit
                    # exactly when the client has agreed to it.
                    self.deferred_settings.append(s)
                else:
                    self._send_settings(s, act.get("delay", 0.0))
            elif do == "early":
                # the server answers at once, before the request body has arrived (RFC 9113 8.1: a complete response may be
                # sent before the request is complete, optionally followed by RST_STREAM(NO_ERROR)); no credit for the rest
                self._send_head(req, Resp(act.get("status", 413), b"Early", [(b"X-Early", b"1")], act.get("body", b"too large")))
                self._pump()
                req.dropped = True
                self.no_credit.add(req.stream_id)
                if act.get("rst"):
                    try:
                        self.conn.reset_stream(req.stream_id, 0)
                        self.ledger.server_reset(req.stream_id)
                    except h2.exceptions.ProtocolError:
                        pass
                    self._flush()
            elif do == "ping-gate":
                # liveness / bandwidth probing as gRPC servers do it: a PING, and nothing more until it is acknowledged
                self._flush()
                self.conn.ping(b"hvgatepg")
                self._flush()
                self.gated = True
                self.ping_gates += 1
            elif do == "ping":
                self.conn.ping(b"hvpingpg")
                self._flush()
            elif do == "close":
                self._flush()
                self.tr.server_close()
                self.closed = True

    def goaway(self, last: int, code: int = 0) -> None:
        """Graceful GOAWAY: the frame is written raw (hyperframe) so that the h2 server role keeps serving the
        streams at or below last-stream-id, as a real server does. A server never names a last-stream-id below
        a stream it has already started to answer."""
        from hyperframe.frame import GoAwayFrame
        last = max([last] + [sid for sid, r in self.reqs.items() if getattr(r, "answered", False)])
        self._flush()
        self.tr.send(GoAwayFrame(stream_id=0, last_stream_id=last, error_code=code).serialize())
        self.goaway_end = self.tr.produced
        self.goaway_last = last
        self.origin.net.log("h2.goaway", tr=self.tr.id, last=last)
        for sid, r in list(self.reqs.items()):
            if sid > last:
                r.dropped = True
                r.refused_by_goaway = True
                self.pending_out.pop(sid, None)
                self.ledger.refused.add(sid)
        self.held = [(r, p) for r, p in self.held if r.stream_id <= last]

    # responses ------------------------------------------------------------------------
    def _answer(self, req: Req) -> None:
        o = self.origin
        resp = o.responder(req, o)
        defer = self.script.get("defer") or {}
        trig = defer.get(str(req.ordinal), defer.get(req.ordinal))
        if trig is not None and trig not in self.answered_ordinals:
            # long-poll style dependency: this request is answered only once request `trig` has been answered
            self.deferred.setdefault(int(trig), []).append((req, resp))
            return
        hold = self.script.get("hold")
        if hold and not self.released:
            self.held.append((req, resp))
            if len(self.held) >= hold:
                self.released = True
                order = self.script.get("order", "fifo")
                items = list(self.held)
                self.held = []
                if order == "reverse":
                    items.reverse()
                elif isinstance(order, (list, tuple)):
                    items = [items[i] for i in order if i < len(items)]
                for r, p in items:
                    self._send_head(r, p)
            return
        self._send_head(req, resp)

    def _send_head(self, req: Req, resp: Resp) -> None:
        o = self.origin
        sid = req.stream_id
        if req.method == b"HEAD" or resp.status in (204, 304):
            resp.no_body = True
        for st, rs, hs in resp.interim:
            self.conn.send_headers(sid, [(b":status", b"%d" % st)] + [(k.lower(), v) for k, v in hs])
        hs = [(k.lower(), v) for k, v in resp.headers]
        if resp.framing == "cl":
            hs.append((b"content-length", b"%d" % len(resp.body)))
        resp.sent_headers = hs
        o.record(req, resp)
        req.answered = True
        self.answered_ordinals.add(req.ordinal)
        waiting = self.deferred.pop(req.ordinal, [])
        body = b"" if resp.no_body else resp.body
        try:
            self.conn.send_headers(sid, [(b":status", b"%d" % resp.status)] + hs, end_stream=not body and not resp.trailers)
        except h2.exceptions.ProtocolError as exc:
            self.errors.append(exc)
            return
        if not body and not resp.trailers:
            self.ledger.server_ended(sid)
            self._after_end(resp.delay)
        else:
            self.pending_out[sid] = {"data": body, "pos": 0, "resp": resp, "truncate": resp.truncate}
        self._flush(resp.delay)
        for r2, p2 in waiting:
            if not getattr(r2, "dropped", False):
                self._send_head(r2, p2)

    def _after_end(self, delay: float = 0.0) -> None:
        """Script key 'after_end': a frame that follows the end of a response a little later, in a segment of its own
        (PING, or one byte of connection credit) - legal chatter that leaves an idle connection's socket readable."""
        what = self.script.get("after_end")
        if not what:
            return
        self._flush(delay)
        if what == "ping":
            self.conn.ping(b"hvafter!")
        else:
            self._wu(0, 1)
        self._flush(delay + self.script.get("after_end_delay", 0.01))

    def _pump(self) -> None:
        """Send as much pending response DATA as the client's windows allow."""
        chunk = self.script.get("data_chunk")
        interleave = self.script.get("order") == "interleave"
        progress = True
        while progress and self.pending_out:
            progress = False
            for sid in list(self.pending_out):
                p = self.pending_out[sid]
                data, pos = p["data"], p["pos"]
                while True:
                    try:
                        win = self.conn.local_flow_control_window(sid)
                    except h2.exceptions.ProtocolError:
                        self.pending_out.pop(sid, None)
                        break
                    pad = self.script.get("pad")
                    overhead = 0 if pad is None else pad + 1
                    n = min(win - overhead, self.conn.max_outbound_frame_size - overhead, len(data) - pos)
                    if chunk:
                        n = min(n, chunk)
                    trunc = p["truncate"]
                    if trunc is not None:
                        n = min(n, max(trunc - pos, 0))
                        if n == 0:
                            # truncated body: reset or close instead of finishing
                            resp = p["resp"]
                            self.pending_out.pop(sid, None)
                            how = getattr(resp, "truncate_how", "rst")
                            if how.startswith("rst"):
                                self.conn.reset_stream(sid, int(how.split(":")[1]) if ":" in how else 2)
                                self.ledger.server_reset(sid)
                            else:
                                self._flush()
                                self.tr.server_close()
                                self.closed = True
                            break
                    if n <= 0 and pos < len(data):
                        break
                    end = pos + n >= len(data) and not p["resp"].trailers
                    ee = self.script.get("empty_every")
                    if ee:
                        # zero-length DATA frames without END_STREAM in the middle of a body are legal (RFC 9113 6.1;
                        # gRPC stacks and some proxies send them)
                        p["nframes"] = p.get("nframes", 0) + 1
                        if p["nframes"] % ee == 0:
                            self.conn.send_data(sid, b"", end_stream=False)
                    self.conn.send_data(sid, data[pos:pos + n], end_stream=end, pad_length=pad)
                    pos += n
                    p["pos"] = pos
                    progress = True
                    if pos >= len(data):
                        if p["resp"].trailers:
                            self.conn.send_headers(sid, [(k.lower(), v) for k, v in p["resp"].trailers],
                                                   end_stream=True)
                        self.pending_out.pop(sid, None)
                        self.ledger.server_ended(sid)
                        self._after_end()
                        break
                    if interleave:
                        break
                self._flush()


INJECT_KINDS = ["wu-zero", "wu-overflow", "wu-stream-overflow", "settings-push-2", "settings-iws-overflow", "settings-mfs-small",
                "settings-odd-length", "settings-ack-with-payload", "push-promise", "continuation-alone", "priority-self",
                "priority-short", "goaway", "rst-idle", "rst-stream0", "data-stream0", "data-idle", "headers-bad-status",
                "headers-empty-status", "headers-no-status", "headers-upper", "headers-hpack-garbage", "headers-even-stream",
                "ping-short", "ping-stream1", "unknown-type", "huge-length", "headers-twice", "data-after-end", "trailers-pseudo",
                "content-length-mismatch", "headers-connection-specific"]


def mut_inject(r, what, srv) -> bytes:
    """Hand-built frames that a conforming server would never send."""
    import struct
    from hpack import Encoder

    def fr(ftype, flags, sid, payload):
        return len(payload).to_bytes(3, "big") + bytes([ftype, flags]) + sid.to_bytes(4, "big") + payload

    sids = sorted(srv.reqs) or [1]
    sid = r.choice(sids)
    what = what or r.choice(INJECT_KINDS)
    enc = Encoder()
    if what == "wu-zero":
        return fr(8, 0, r.choice([0, sid]), struct.pack(">I", 0))
    if what == "wu-overflow":
        return fr(8, 0, 0, struct.pack(">I", 2 ** 31 - 1))
    if what == "wu-stream-overflow":
        return fr(8, 0, sid, struct.pack(">I", 2 ** 31 - 1))
    if what == "settings-push-2":
        return fr(4, 0, 0, struct.pack(">HI", 2, 2))
    if what == "settings-iws-overflow":
        return fr(4, 0, 0, struct.pack(">HI", 4, 2 ** 31))
    if what == "settings-mfs-small":
        return fr(4, 0, 0, struct.pack(">HI", 5, 1))
    if what == "settings-odd-length":
        return fr(4, 0, 0, b"\x00\x03\x00")
    if what == "settings-ack-with-payload":
        return fr(4, 1, 0, struct.pack(">HI", 3, 10))
    if what == "push-promise":
        return fr(5, 4, sid, struct.pack(">I", 2) + enc.encode([(b":method", b"GET"), (b":path", b"/"), (b":scheme", b"https"), (b":authority", b"x")]))
    if what == "continuation-alone":
        return fr(9, 4, sid, b"\x88")
    if what == "priority-self":
        return fr(2, 0, sid, struct.pack(">IB", sid, 10))
    if what == "priority-short":
        return fr(2, 0, sid, b"\x00\x00")
    if what == "goaway":
        return fr(7, 0, 0, struct.pack(">II", r.choice([0, sid, 2 ** 31 - 1]), r.choice([0, 1, 11, 999])) + b"dbg")
    if what == "rst-idle":
        return fr(3, 0, 99, struct.pack(">I", 8))
    if what == "rst-stream0":
        return fr(3, 0, 0, struct.pack(">I", 8))
    if what == "data-stream0":
        return fr(0, 0, 0, b"xx")
    if what == "data-idle":
        return fr(0, 0, 77, b"xx")
    if what == "headers-bad-status":
        return fr(1, 4, sid, enc.encode([(b":status", r.choice([b"abc", b"2x0", b"20", b"99999", b"-1", b"2 00", b"\xff\xfe"]))]))
    if what == "headers-empty-status":
        return fr(1, 4, sid, enc.encode([(b":status", b"")]))
    if what == "headers-no-status":
        return fr(1, 4, sid, enc.encode([(b"x-a", b"b")]))
    if what == "headers-upper":
        return fr(1, 4, sid, enc.encode([(b":status", b"200"), (b"X-Upper", b"b")]))
    if what == "headers-hpack-garbage":
        return fr(1, 4, sid, bytes(r.randrange(256) for _ in range(r.randint(1, 30))))
    if what == "headers-even-stream":
        return fr(1, 4, 2, enc.encode([(b":status", b"200")]))
    if what == "ping-short":
        return fr(6, 0, 0, b"abc")
    if what == "ping-stream1":
        return fr(6, 0, 1, b"12345678")
    if what == "unknown-type":
        return fr(r.choice([10, 11, 99, 255]), r.randrange(256), r.choice([0, sid]), b"whatever")
    if what == "huge-length":
        return (2 ** 24 - 1).to_bytes(3, "big") + bytes([0, 0]) + sid.to_bytes(4, "big") + b"x" * 100
    if what == "headers-twice":
        return fr(1, 4, sid, enc.encode([(b":status", b"200")])) + fr(1, 4, sid, enc.encode([(b":status", b"200")]))
    if what == "data-after-end":
        return fr(0, 1, sid, b"end") + fr(0, 0, sid, b"more")
    if what == "trailers-pseudo":
        return fr(1, 5, sid, enc.encode([(b":status", b"200"), (b":path", b"/x")]))
    if what == "content-length-mismatch":
        return fr(1, 4, sid, enc.encode([(b":status", b"200"), (b"content-length", b"5")])) + fr(0, 1, sid, b"toolongbody")
    if what == "headers-connection-specific":
        return fr(1, 4, sid, enc.encode([(b":status", b"200"), (b"connection", b"close"), (b"transfer-encoding", b"chunked")]))
    return b""
