"""Where is everybody blocked? Await-chain snapshots of all asyncio / trio tasks."""
from __future__ import annotations


def chain(coro, limit: int = 10):
    out = []
    seen = 0
    while coro is not None and seen < 60:
        seen += 1
        fr = getattr(coro, "cr_frame", None) or getattr(coro, "gi_frame", None) or getattr(coro, "ag_frame", None)
        if fr is not None:
            fn = fr.f_code.co_filename
            if "httpcore" in fn or "/hv/" in fn:
                out.append(f"{fn.rsplit('/', 1)[-1]}:{fr.f_lineno}:{fr.f_code.co_name}")
        nxt = getattr(coro, "cr_await", None) or getattr(coro, "gi_yieldfrom", None) or getattr(coro, "ag_await", None)
        if nxt is None and hasattr(coro, "coro"):
            nxt = coro.coro
        coro = nxt
    return out[-limit:]


def asyncio_tasks():
    import asyncio
    out = []
    for t in asyncio.all_tasks():
        c = chain(t.get_coro())
        if c:
            out.append(" > ".join(c))
    return out


def trio_tasks():
    import trio
    out = []
    root = trio.lowlevel.current_root_task()
    stack = [root]
    while stack:
        t = stack.pop()
        c = chain(t.coro)
        if c:
            out.append(" > ".join(c))
        for n in t.child_nurseries:
            stack.extend(n.child_tasks)
    return out


def all_tasks(flavor: str):
    return asyncio_tasks() if flavor == "asyncio" else trio_tasks()
