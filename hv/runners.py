"""Runtimes: asyncio on a virtual-time loop (through anyio), trio under MockClock, and the
sync scheduler. Plus the coroutine Stepper used to inject cancellations at real
suspension points, and the `time` shim that gives httpcore the virtual clock."""
from __future__ import annotations

import asyncio
import random
import selectors
import sys
import types

from . import REPO  # noqa: F401
import anyio
import trio
import trio.testing
import trio._core._run as _trio_run

import httpcore
from . import simnet
from .simnet import Net

HORIZON = 1.0e12  # virtual seconds: outer safety net; scenarios use world.guarded (1e5)
T0 = 1000.0


# ---------------------------------------------------------------------------------
# time shim
# ---------------------------------------------------------------------------------
class _TimeShim:
    def __init__(self, real, nowfn) -> None:
        self._real = real
        self._now = nowfn

    def monotonic(self) -> float:
        return self._now() + SKEW[0]

    def __getattr__(self, name):
        return getattr(self._real, name)


_PATCHED: list = []
SKEW = [0.0]  # "time passed between two statements": added to the clock httpcore sees (never to the event loop's)


def patch_time(nowfn) -> int:
    """Replace the `time` module as seen by every loaded httpcore module."""
    import time as _time

    unpatch_time()
    SKEW[0] = 0.0
    n = 0
    for name, mod in list(sys.modules.items()):
        if not (name == "httpcore" or name.startswith("httpcore.")) or mod is None:
            continue
        t = mod.__dict__.get("time")
        if t is _time or isinstance(t, _TimeShim):
            mod.__dict__["time"] = _TimeShim(_time, nowfn)
            _PATCHED.append(mod)
            n += 1
    return n


def unpatch_time() -> None:
    import time as _time

    for mod in _PATCHED:
        mod.__dict__["time"] = _time
    _PATCHED.clear()


# make sure every module that uses time is loaded before patching
import httpcore._async.http11, httpcore._async.http2, httpcore._sync.http11, httpcore._sync.http2  # noqa: E402,E401
import httpcore._async.socks_proxy, httpcore._sync.socks_proxy, httpcore._async.http_proxy, httpcore._sync.http_proxy  # noqa: E402,E401


# ---------------------------------------------------------------------------------
# asyncio virtual-time loop
# ---------------------------------------------------------------------------------
SPIN_LIMIT = 1_000_000  # loop iterations without virtual time advancing => livelock verdict


class Livelock(BaseException):
    """The event loop kept running without virtual time ever advancing."""


class _VSelector:
    def __init__(self, loop) -> None:
        self._sel = selectors.DefaultSelector()
        self._loop = loop
        self._spin = 0

    def select(self, timeout=None):
        loop = self._loop
        if timeout is not None and timeout <= 0:
            self._spin += 1
            if self._spin > SPIN_LIMIT and not loop.hv_livelock:
                loop.hv_livelock = True
                if loop.hv_outer_scope is not None:
                    loop.hv_outer_scope.cancel()
        else:
            self._spin = 0
        if timeout is None or timeout > 0:
            hook = loop.hv_on_idle
            if hook is not None:
                hook()
            if loop._scheduled:
                loop._vtime = max(loop._vtime, loop._scheduled[0]._when)
            elif timeout is None:
                raise RuntimeError("hv: asyncio loop idle forever (no watchdog?)")
            else:
                loop._vtime += timeout
        return self._sel.select(0)

    def __getattr__(self, name):
        return getattr(self._sel, name)


class VLoop(asyncio.SelectorEventLoop):
    def __init__(self) -> None:
        self._vtime = T0
        self.hv_on_idle = None
        self.hv_livelock = False
        self.hv_outer_scope = None
        sel = _VSelector(self)
        super().__init__(selector=sel)

    def time(self) -> float:
        return self._vtime


class Outcome:
    """What a caller ended with."""

    __slots__ = ("kind", "value", "exc", "t")

    def __init__(self, kind, value=None, exc=None, t=None):
        self.kind = kind  # ok | exc | cancelled | hang
        self.value = value
        self.exc = exc
        self.t = t

    def __repr__(self):
        if self.kind == "exc":
            return f"<exc {type(self.exc).__name__}: {self.exc}>"
        return f"<{self.kind} {self.value!r}>"


class Hang(Exception):
    pass


def run_asyncio(main, net: Net, on_idle=None):
    """Run `await main()` on a virtual-time asyncio loop via anyio. A watchdog at HORIZON
    turns 'everything blocked' into Hang."""
    holder = {}

    def factory():
        loop = VLoop()
        loop.hv_on_idle = on_idle
        holder["loop"] = loop
        return loop

    async def outer():
        loop = asyncio.get_running_loop()
        if net is not None:
            net.now = loop.time
        simnet.ENV["now"] = loop.time
        patch_time(loop.time)
        try:
            with anyio.move_on_after(HORIZON - T0) as scope:
                loop.hv_outer_scope = scope
                return await main()
            if loop.hv_livelock:
                raise Livelock(f"asyncio loop ran {SPIN_LIMIT} iterations without virtual time advancing")
            if scope.cancelled_caught:
                raise Hang("virtual watchdog: blocked forever")
        finally:
            unpatch_time()
            simnet.ENV["now"] = None

    return anyio.run(outer, backend="asyncio", backend_options={"loop_factory": factory})


def _Clock(on_idle=None):
    """trio.testing.MockClock(autojump_threshold=0) with a quiescence hook. MockClock is
    final and trio's run loop insists on that class, so the hook is installed on the
    instance: it runs exactly when trio found everything idle, before the clock jumps."""
    clock = trio.testing.MockClock(autojump_threshold=0)
    if on_idle is not None:
        orig = clock._autojump

        def _autojump():
            on_idle()
            orig()

        clock._autojump = _autojump
    return clock


class _SpinInstrument(trio.abc.Instrument):
    def __init__(self) -> None:
        self.spin = 0
        self.scope = None
        self.livelock = False

    def before_io_wait(self, timeout: float) -> None:
        if timeout <= 0:
            self.spin += 1
            if self.spin > SPIN_LIMIT and not self.livelock:
                self.livelock = True
                if self.scope is not None:
                    self.scope.cancel()
        else:
            self.spin = 0


_CUR_SPIN: list = [None]


def reset_spin() -> None:
    """A new scenario starts: iterations of earlier scenarios at the same virtual instant do not count against it."""
    try:
        loop = asyncio.get_running_loop()
    except RuntimeError:
        loop = None
    if isinstance(loop, VLoop):
        loop._selector._spin = 0
    elif _CUR_SPIN[0] is not None:
        _CUR_SPIN[0].spin = 0


def run_trio(main, net: Net, seed: int = 0, on_idle=None):
    _trio_run._ALLOW_DETERMINISTIC_SCHEDULING = True
    _trio_run._r = random.Random(seed)
    clock = _Clock(on_idle)
    spin = _SpinInstrument()
    _CUR_SPIN[0] = spin

    async def outer():
        base = trio.current_time()

        def now():
            return T0 + (trio.current_time() - base)

        if net is not None:
            net.now = now
        simnet.ENV["now"] = now
        patch_time(now)
        try:
            with trio.move_on_after(HORIZON - T0) as scope:
                spin.scope = scope
                return await main()
            if spin.livelock:
                raise Livelock(f"trio ran {SPIN_LIMIT} iterations without virtual time advancing")
            if scope.cancelled_caught:
                raise Hang("virtual watchdog: blocked forever")
        finally:
            unpatch_time()
            simnet.ENV["now"] = None

    return trio.run(outer, clock=clock, instruments=[spin])


def run_async(flavor: str, main, net: Net, seed: int = 0, on_idle=None):
    if flavor == "asyncio":
        return run_asyncio(main, net, on_idle)
    if flavor == "trio":
        return run_trio(main, net, seed, on_idle)
    raise ValueError(flavor)


# ---------------------------------------------------------------------------------
# coroutine stepper
# ---------------------------------------------------------------------------------
class Stepper:
    """Awaitable that drives `coro` itself, re-yielding whatever it yields, and calls
    hook(phase, k) just before the k-th yield reaches the event loop ("before") and right
    after the loop resumed it ("after")."""

    def __init__(self, coro, hook=None) -> None:
        self.coro = coro
        self.hook = hook
        self.k = 0

    def __await__(self):
        coro = self.coro
        hook = self.hook
        val = None
        exc = None
        while True:
            try:
                if exc is not None:
                    y = coro.throw(exc)
                else:
                    y = coro.send(val)
            except StopIteration as stop:
                return stop.value
            self.k += 1
            if hook is not None:
                hook("before", self.k)
            try:
                val = yield y
                exc = None
            except BaseException as e:  # noqa
                exc = e
                val = None
            if hook is not None:
                hook("after", self.k)


async def run_with_cancel(flavor: str, make_coro, style: str | None, k: int | None, on_fire=None):
    """Run make_coro() as the victim; inject one cancellation of `style` at suspension
    point k (a number, or a predicate over the number of the suspension point that is about to be reached).
    Returns (Outcome, total_yields)."""
    state = {"fired": False}

    if style in (None, "none"):
        st = Stepper(make_coro(), None)
        try:
            v = await st
            return Outcome("ok", v), st.k
        except Exception as exc:  # noqa
            return Outcome("exc", exc=exc), st.k

    if style in ("scope-before", "scope-after"):
        phase = "before" if style == "scope-before" else "after"
        if flavor == "trio":
            scope = trio.CancelScope()
        else:
            scope = anyio.CancelScope()

        def hook(ph, n):
            if not state["fired"] and ph == phase and (k(n) if callable(k) else n == k):
                state["fired"] = True
                if on_fire is not None:
                    on_fire()
                scope.cancel()

        st = Stepper(make_coro(), hook)
        try:
            with scope:
                v = await st
                return Outcome("ok", v), st.k
        except Exception as exc:  # noqa
            return Outcome("exc", exc=exc), st.k
        return Outcome("cancelled" if state["fired"] else "ok"), st.k

    if style == "native":
        assert flavor == "asyncio"
        holder = {}

        def hook(ph, n):
            if not state["fired"] and ph == "before" and (k(n) if callable(k) else n == k):
                state["fired"] = True
                if on_fire is not None:
                    on_fire()
                holder["task"].cancel()

        st = Stepper(make_coro(), hook)

        async def victim():
            return await st

        task = asyncio.ensure_future(victim())
        holder["task"] = task
        try:
            # wait without being affected ourselves
            while not task.done():
                await asyncio.wait([task])
            if task.cancelled():
                return Outcome("cancelled"), st.k
            exc = task.exception()
            if exc is not None:
                return Outcome("exc", exc=exc), st.k
            return Outcome("ok", task.result()), st.k
        finally:
            if not task.done():
                task.cancel()
    raise ValueError(style)


# ---------------------------------------------------------------------------------
# task groups independent of flavor (anyio API works on both)
# ---------------------------------------------------------------------------------
async def gather(callers: dict):
    """Run named coroutine factories concurrently; returns {name: Outcome}."""
    out: dict = {}

    async def one(name, fn):
        try:
            v = await fn()
            out[name] = Outcome("ok", v)
        except Exception as exc:  # noqa
            out[name] = Outcome("exc", exc=exc)

    async with anyio.create_task_group() as tg:
        for name, fn in callers.items():
            tg.start_soon(one, name, fn)
    return out
