"""Seeded generators: responses, requests, segmentations."""
from __future__ import annotations

import random

from .endpoints import Resp

HDR_NAMES = [b"Content-Type", b"content-type", b"X-A", b"x-a", b"X-a", b"Set-Cookie", b"Set-Cookie", b"Cache-Control",
             b"ETag", b"Vary", b"X-Long-Header-Name-With-Dashes", b"Date", b"a"]
VALUE_CHARS = b"abcdefghijklmnopqrstuvwxyzABCDEFGHIJKLMNOPQRSTUVWXYZ0123456789 ,;=/\"()<>@[]{}!#$%&'*+-.^_`|~:?"
REASONS = [b"OK", b"", b"Not Found", b"Created", b"I'm a teapot", b"Multiple   spaces", b"x", b"No Content",
           b"Internal Server Error"]


def rand_value(r: random.Random, maxlen: int = 24) -> bytes:
    n = r.randint(0, maxlen)
    v = bytes(r.choice(VALUE_CHARS) for _ in range(n)).strip(b" ")
    return v


def rand_body(r: random.Random, size: int) -> bytes:
    if size == 0:
        return b""
    block = bytes(r.randrange(256) for _ in range(min(size, 257)))
    reps = size // len(block) + 1
    return (block * reps)[:size]


def gen_headers(r: random.Random, lower: bool = False, maxn: int = 6):
    out = []
    for _ in range(r.randint(0, maxn)):
        k = r.choice(HDR_NAMES)
        if lower:
            k = k.lower()
        out.append((k, rand_value(r)))
    return out


def gen_response_spec(r: random.Random, proto: str = "h1", small: bool = True) -> dict:
    """JSON-able description of a well-formed response."""
    status = r.choice([200, 200, 200, 201, 204, 206, 299, 301, 304, 400, 404, 418, 500, 599])
    method = r.choice(["GET", "GET", "GET", "HEAD", "POST"])
    if proto == "h1":
        framing = r.choice(["cl", "cl", "chunked", "chunked", "close", "http10"])
    else:
        framing = r.choice(["cl", "none"])
    if small:
        size = r.choice([0, 0, 1, 2, 5, 17, 40, 100])
    else:
        size = r.choice([0, 1, 1000, 16383, 16384, 16385, 65535, 65536, 70000, 200000])
    n_interim = r.choice([0, 0, 0, 1, 2, 3])
    spec = {
        "proto": proto, "status": status, "method": method, "framing": framing, "size": size,
        "reason": r.randrange(len(REASONS)), "hseed": r.randrange(1 << 30),
        "interim": [r.choice([100, 102, 103]) for _ in range(n_interim)],
        "chunks": [r.choice([1, 2, 3, 7, 16, 100, 1000, 5000]) for _ in range(r.randint(0, 6))],
        "conn_close": r.random() < 0.15,
        "trailers": r.random() < 0.15,
        "data_chunk": r.choice([None, 1, 7, 100, 16384]) if proto == "h2" else None,
        "pad": r.choice([None, None, 0, 5]) if proto == "h2" else None,
    }
    # zero-length DATA frames without END_STREAM before every n-th DATA frame (derived from values drawn above, so that
    # the specs of earlier seeds stay what they were)
    spec["empty_every"] = [None, None, 1, 2][spec["hseed"] % 4] if proto == "h2" else None
    # position on the connection: first response, or after 1-2 kept-alive exchanges
    spec["warm"] = r.choice([0, 0, 1, 2])
    # large header blocks (HTTP/1.1, below httpcore's documented 100 KiB limit for one incomplete event)
    spec["big_headers"] = r.choice([0, 0, 0, 20, 60, 90]) if (proto == "h1" and not small) else 0
    if proto == "h2" and spec["data_chunk"] in (1, 7) and size > 3000:
        spec["data_chunk"] = 100  # keep the number of frames (and loop iterations at one virtual instant) bounded
    return spec


def build_resp(spec: dict) -> Resp:
    r = random.Random(spec["hseed"])
    lower = spec["proto"] == "h2"
    headers = gen_headers(r, lower)
    body = rand_body(r, spec["size"])
    for j in range(spec.get("big_headers", 0)):
        headers.append((b"Set-Cookie", b"c%d=" % j + bytes(r.choice(VALUE_CHARS.replace(b" ", b"a")) for _ in range(1000))))
    interim = []
    for st in spec["interim"]:
        hs = gen_headers(r, lower, 2)
        if st == 103:
            hs.append((b"link" if lower else b"Link", b"</style.css>; rel=preload"))
        interim.append((st, {100: b"Continue", 102: b"Processing", 103: b"Early Hints"}[st], hs))
    framing = spec["framing"]
    http10 = framing == "http10"
    if http10:
        framing = "close"
    resp = Resp(spec["status"], REASONS[spec["reason"]], headers, body, framing=framing, interim=interim,
                chunks=spec["chunks"] or None, conn_close=spec["conn_close"], http10=http10)
    if spec["trailers"] and (spec["framing"] == "chunked" or spec["proto"] == "h2") and body:
        resp.trailers = [(b"x-trailer" if lower else b"X-Trailer", b"t")]
    return resp


def expected_body(spec: dict, resp: Resp) -> bytes:
    if spec["method"] == "HEAD" or spec["status"] in (204, 304):
        return b""
    return resp.body
