"""Shared driver for the single-injection enumeration checks (C05, C06)."""
from __future__ import annotations

import random
import re

from .scenarios import (run_injected, post_checks, applicable_faults, styles_for, contexts_for, TYPES, TYPE_CLASS,
                        CORE_TYPES, SHAPES)
from .world import run_flavor, exc_name, documented, is_async

STATE_RE = re.compile(r"HTTP/(1\.1|2), (\w+),")


def conn_state_name(info: str) -> str:
    if info in ("CONNECTING", "CONNECTION FAILED"):
        return info.replace(" ", "-")
    m = STATE_RE.search(info)
    if m:
        return f"{m.group(2)}-{'h1' if m.group(1) == '1.1' else 'h2'}"
    return "UNKNOWN"


def inj_label(inject, ops_by_idx):
    if inject is None:
        return "none"
    if inject[0] == "fault":
        return f"fault:{inject[2]}@{ops_by_idx.get(inject[1], '?')}"
    if inject[0] == "fault+cancel":
        return f"fault:{inject[2]}@{ops_by_idx.get(inject[1], '?')}+cancel:native:cleanup"
    if inject[0] == "trace-raise+cancel":
        return f"trace-raise:{inject[1]}+cancel:native:cleanup"
    if inject[0] == "trace-raise":
        return f"trace-raise:{inject[1]}"
    return f"cancel:{inject[1]}"


def plan_injections(flavor, K, ops, tier, rng):
    faults = [("fault", idx, f) for idx, kind, f in applicable_faults(ops)]
    cancels = []
    ks = list(range(1, K + 1))
    if tier == "quick" and K > 30:
        keep = set(ks[:14]) | set(ks[-6:]) | set(rng.sample(ks, 10))
        ks = sorted(keep)
    for st in styles_for(flavor):
        for k in ks:
            cancels.append(("cancel", st, k))
    if tier == "quick" and len(faults) > 45:
        faults = sorted(rng.sample(faults, 45))
    if flavor == "asyncio":
        # a fault, and then a task cancellation while the victim cleans up after it (1st, 2nd, 3rd suspension point)
        # (only faults that are raised in the operation itself: a scheduled EOF is still in the future when the next
        # suspension point - the parked read - is reached, so the cancellation would not fall into any clean-up)
        hard = [f for f in faults if f[2] in ("ReadError", "WriteError", "ConnectError", "PartialWrite")]
        if tier == "quick" and len(hard) > 10:
            hard = sorted(rng.sample(hard, 10))
        for f in hard:
            for j in ((1, 2) if tier == "quick" else (1, 2, 3, 4)):
                cancels.append(("fault+cancel", f[1], f[2], j))
    return faults, cancels


def run_enumeration(case, judge, counters_init):
    """case: {flavor, ctype, shape, context, tier, seed}. judge(res, facts, inject, label, base) -> [(symptom, detail)]"""
    flavor, ctype, shape, context = case["flavor"], case["ctype"], case["shape"], case["context"]
    rng = random.Random(case["seed"])
    viol = []
    cnt = dict(counters_init)
    cnt.update({"runs": 0, "baseline_runs": 0, "fault_runs": 0, "cancel_runs": 0, "faults_fired": 0,
                "cancels_fired": 0, "yields_enumerated": 0, "ops_enumerated": 0, "victim_ok": 0, "victim_exc": 0,
                "victim_cancelled": 0})
    sigs = set()
    sample = {}

    def v(key, what, detail):
        if not any(x["key"] == key for x in viol) and len(viol) < 60:
            viol.append({"key": key, "what": what, "detail": detail})

    async def main():
        res = await run_injected(flavor, ctype, shape, context, None)
        facts = await post_checks(res, flavor)
        cnt["runs"] += 1
        cnt["baseline_runs"] += 1
        ops = list(res["sc"].net.ops)
        ops = [o for o in ops if o[3] != "post"]
        ops_by_idx = {o[0]: o[1] for o in ops}
        K = res["K"]
        base = {"K": K, "ops": len(ops)}
        for sym, det in judge(res, facts, None, "none", base, cnt):
            v(f"{TYPE_CLASS[ctype]}|{sym}|none|baseline", f"baseline run already violates: {sym}",
              {"case": case, "detail": det})
        vo = res["outcomes"].get("victim")
        if vo is None or vo.kind != "ok":
            v(f"{TYPE_CLASS[ctype]}|baseline-victim-failed|none|baseline", f"baseline victim outcome {vo!r}", {"case": case})
            return
        faults, cancels = plan_injections(flavor, K, ops, case["tier"], rng)
        # the victim's trace callback raises at its n-th '.started' / '.complete' event (all flavours, also sync)
        n_ev = len((res["sc"].phase.get("victim") or {}).get("hist", []))
        tr = [("trace-raise", suf, n) for suf in (".started", ".complete") for n in range(1, n_ev + 1)]
        if case["tier"] == "quick" and len(tr) > 12:
            tr = sorted(rng.sample(tr, 12))
        cancels = cancels + tr
        if flavor == "asyncio" and "yielding-trace" in context:
            # ... and then a task cancellation inside the clean-up (the awaiting callback is where it can land)
            tr2 = [("trace-raise+cancel", suf, n, j) for (_, suf, n) in tr for j in (1, 2, 3)]
            if case["tier"] == "quick" and len(tr2) > 24:
                tr2 = sorted(rng.sample(tr2, 24))
            cancels = cancels + tr2
        cnt["yields_enumerated"] += K
        cnt["ops_enumerated"] += len(ops)
        sample.update({"case": case, "victim_suspension_points": K, "network_ops": [o[1] for o in ops][:40],
                       "injections_planned": len(faults) + len(cancels)})
        for inject in faults + cancels:
            res = await run_injected(flavor, ctype, shape, context, inject)
            facts = await post_checks(res, flavor)
            cnt["runs"] += 1
            label = inj_label(inject, ops_by_idx)
            if inject[0] == "fault":
                cnt["fault_runs"] += 1
                cnt["faults_fired"] += 1 if res["fired"] else 0
            elif inject[0] == "trace-raise+cancel":
                cnt["trace_raise_cancel_runs"] = cnt.get("trace_raise_cancel_runs", 0) + 1
                cnt["trace_raise_cancel_both_fired"] = cnt.get("trace_raise_cancel_both_fired", 0) + (1 if res["fired"] and res.get("fault_fired") else 0)
            elif inject[0] == "trace-raise":
                cnt["trace_raise_runs"] = cnt.get("trace_raise_runs", 0) + 1
                cnt["trace_raise_fired"] = cnt.get("trace_raise_fired", 0) + (1 if res["fired"] else 0)
            elif inject[0] == "fault+cancel":
                cnt["double_runs"] = cnt.get("double_runs", 0) + 1
                cnt["double_both_fired"] = cnt.get("double_both_fired", 0) + (1 if res["fired"] and res.get("fault_fired") else 0)
            else:
                cnt["cancel_runs"] += 1
                cnt["cancels_fired"] += 1 if res["fired"] else 0
            vo = res["outcomes"].get("victim")
            if vo is not None:
                cnt["victim_" + {"ok": "ok", "exc": "exc", "cancelled": "cancelled"}.get(vo.kind, "exc")] += 1
            phase = res.get("inj_phase") or "-"
            if res["fired"]:
                sigs.add(f"{ctype}|{shape}|{context}|{flavor}|{label}|{phase}")
            for sym, det in judge(res, facts, inject, label, base, cnt):
                key = f"{TYPE_CLASS[ctype]}|{sym}|{label}|{phase}"
                v(key, f"{ctype}/{shape}/{context}/{flavor}: {sym} after {label} in phase {phase}",
                  {"case": case, "inject": list(inject), "phase": phase, "detail": det,
                   "victim": repr(vo), "trace_phases": (res["sc"].phase.get("victim") or {}).get("hist", [])[-8:]})

    run_flavor(flavor, None, main, seed=case["seed"])
    return {"viol": viol, "counters": cnt, "sigs": sorted(sigs), "sample": sample or None}


def plan_cases(tier, seed):
    rng = random.Random(seed * 7 + 5)
    cases = []
    flavors = ["asyncio", "trio", "sync"]
    for ctype in TYPES:
        core = ctype in CORE_TYPES
        for shape in SHAPES:
            if shape == "short-body-warm" and TYPES[ctype].get("http2"):
                continue  # only HTTP/1.1 can tell locally that a body is shorter than its Content-Length
            for flavor in flavors:
                for context in contexts_for(ctype, flavor):
                    if tier == "quick":
                        # core types: everything; others: a seeded third of the combinations
                        if not core and rng.random() > 0.34:
                            continue
                        if core and context not in ("alone",) and shape != "get" and rng.random() > 0.5:
                            continue
                    cases.append({"flavor": flavor, "ctype": ctype, "shape": shape, "context": context, "tier": tier,
                                  "seed": rng.randrange(1 << 30)})
    # heavy (h2) first for load balance
    cases.sort(key=lambda c: (0 if "h2" in c["ctype"] else 1, c["flavor"] == "sync"))
    return cases
