"""Controlled scheduler for the synchronous code: real threads serialised by a baton.

Exactly one managed thread runs at a time. A thread gives the baton up only at a yield
point: a simnet operation, a shim lock/event/semaphore operation, or (optionally) a
`sys.monitoring` LINE event inside the httpcore sync sources. Blocking is expressed as a
predicate, so a state in which no thread is enabled and no virtual deadline exists is a
deterministic deadlock verdict. Also usable with zero managed threads (plain sequential
sync runs): then blocking just advances the virtual clock or raises SimHang.
"""
from __future__ import annotations

import random
import sys
import threading as _threading

from .simnet import EPS, SimHang

_real_threading = _threading


class Deadlock(BaseException):
    pass


class _T:
    __slots__ = ("name", "fn", "thread", "go", "state", "pred", "deadline", "wake", "prio", "timed_out",
                 "result", "error", "where", "steps")

    def __init__(self, name, fn):
        self.name = name
        self.fn = fn
        self.thread = None
        self.go = _real_threading.Semaphore(0)
        self.state = "ready"  # ready | blocked | done
        self.pred = None
        self.deadline = None
        self.wake = None
        self.prio = 0.0
        self.timed_out = False
        self.result = None
        self.error = None
        self.where = None
        self.steps = 0


class Sched:
    def __init__(self, seed: int = 0, strategy: str = "random", p: float = 0.1, depth: int = 2,
                 est_steps: int = 4000, max_steps: int = 2_000_000) -> None:
        self.rng = random.Random(seed)
        self.strategy = strategy
        self.p = p
        self.clock = 1000.0
        self.threads: list[_T] = []
        self.by_ident: dict[int, _T] = {}
        self.current: _T | None = None
        self.steps = 0
        self.switches = 0
        self.max_steps = max_steps
        self.deadlock = None
        self.no_preempt = 0  # > 0 while a monitor runs: line events do not yield
        self.p_jump = 0.0   # probability per dispatch that runnable threads are "descheduled" until the next timeout
        self.jumps = 0
        self.killed = False
        self.done_evt = _real_threading.Event()
        self.trace: list[int] = []  # chosen thread index at each switch (fingerprint)
        self.on_quiescent = None  # hook(sched) when no thread is enabled (before clock jump)
        self.on_step = None
        if strategy == "pct":
            self.change_points = sorted(self.rng.randrange(1, max(est_steps, 2)) for _ in range(depth))
        else:
            self.change_points = []
        self.low = 0.0

    # -- time ----------------------------------------------------------------
    def now(self) -> float:
        return self.clock

    # -- thread management -----------------------------------------------------
    def spawn(self, fn, name=None) -> _T:
        t = _T(name or f"t{len(self.threads)}", fn)
        t.prio = self.rng.random() + 1.0
        self.threads.append(t)
        return t

    def _me(self) -> _T | None:
        return self.by_ident.get(_real_threading.get_ident())

    def _body(self, t: _T) -> None:
        self.by_ident[_real_threading.get_ident()] = t
        t.go.acquire()
        try:
            if self.killed:
                raise Deadlock()
            t.result = t.fn()
        except Deadlock:
            t.error = "deadlock"
        except BaseException as exc:  # noqa
            t.error = exc
        t.state = "done"
        self.current = None
        if self.killed:
            if all(x.state == "done" for x in self.threads):
                self.done_evt.set()
            return
        self._dispatch(None)

    def run(self, wall_timeout: float = 120.0) -> bool:
        """Run all spawned threads to completion. Returns False on wall-clock timeout."""
        for t in self.threads:
            t.thread = _real_threading.Thread(target=self._body, args=(t,), daemon=True)
            t.thread.start()
        self._dispatch(None)
        ok = self.done_evt.wait(wall_timeout)
        if not ok:
            self.killed = True
            return False
        for t in self.threads:
            t.thread.join(5)
        return True

    # -- core ------------------------------------------------------------------
    def _enabled(self):
        out = []
        for t in self.threads:
            if t.state == "ready":
                out.append(t)
            elif t.state == "blocked":
                if t.pred() or (t.deadline is not None and t.deadline <= self.clock + EPS):
                    out.append(t)
        return out

    def _mark_timeouts(self) -> None:
        """A timed wait whose deadline passes while its condition is false has timed out - even if the condition becomes
        true before the thread gets to run again (threading.Condition.wait returns False in that case)."""
        for t in self.threads:
            if (t.state == "blocked" and t.deadline is not None and t.deadline <= self.clock + EPS
                    and not t.timed_out and not t.pred()):
                t.timed_out = True

    def _choose(self, cands, me):
        if len(cands) == 1:
            return cands[0]
        if self.strategy == "pct":
            return max(cands, key=lambda t: t.prio)
        if self.strategy == "rr":
            return cands[self.steps % len(cands)]
        # random: stay with probability 1-p when possible
        if me is not None and me in cands and self.rng.random() >= self.p:
            return me
        return self.rng.choice(cands)

    def _dispatch(self, me: _T | None) -> None:
        """Pick the next thread to run and hand the baton over. `me` (if any) has already
        recorded its own state. Returns when `me` holds the baton again."""
        while True:
            cands = self._enabled()
            if cands:
                break
            alive = [t for t in self.threads if t.state != "done"]
            if not alive:
                self.done_evt.set()
                return
            if self.on_quiescent is not None:
                self.on_quiescent(self)
            # nobody enabled: advance the clock to the earliest deadline / wake time
            times = []
            for t in alive:
                if t.deadline is not None:
                    times.append(t.deadline)
                if t.wake is not None:
                    w = t.wake()
                    if w is not None:
                        times.append(w)
            times = [x for x in times if x > self.clock + EPS]
            if not times:
                self.deadlock = [(t.name, t.where) for t in alive]
                self.killed = True
                for t in alive:
                    if t is not me:
                        t.go.release()
                if me is not None:
                    raise Deadlock()
                return
            self.clock = min(times)
            self._mark_timeouts()
        if self.p_jump and self.rng.random() < self.p_jump:
            # every runnable thread loses the CPU until the earliest pending timeout is due: the timed wait is over
            # (with a timeout) while the others are in the middle of whatever they were doing
            dl = [t.deadline for t in self.threads if t.state == "blocked" and t.deadline is not None
                  and t.deadline > self.clock + EPS]
            if dl:
                self.clock = min(dl)
                self._mark_timeouts()
                self.jumps += 1
                cands = self._enabled()
        nxt = self._choose(cands, me)
        self.trace.append(self.threads.index(nxt))
        if nxt is me:
            return
        self.switches += 1
        self.current = nxt
        nxt.go.release()
        if me is not None and me.state != "done":
            me.go.acquire()
            if self.killed:
                raise Deadlock()

    def demote_current(self) -> None:
        """The running thread gets the lowest priority (strategy 'pct'): everybody else runs until blocked or done."""
        me = self._me()
        if me is not None:
            self.low -= 1.0
            me.prio = self.low

    def yield_point(self, kind: str = "") -> None:
        me = self._me()
        if me is None or self.killed:
            return
        self.steps += 1
        me.steps += 1
        if self.steps > self.max_steps:
            self.deadlock = [("livelock", f"step budget {self.max_steps} exhausted")]
            self.killed = True
            for t in self.threads:
                if t is not me and t.state != "done":
                    t.go.release()
            raise Deadlock()
        if self.change_points and self.steps >= self.change_points[0]:
            self.change_points.pop(0)
            self.low -= 1.0
            me.prio = self.low
        if len(self.threads) == 1:
            return
        me.state = "ready"
        self._dispatch(me)

    def block_until(self, pred, timeout=None, wake=None, where=None) -> bool:
        """Block the calling thread until pred() or the virtual timeout. Returns pred()."""
        me = self._me()
        if pred():
            return True
        if self.killed:
            raise Deadlock()
        deadline = None if timeout is None else self.clock + timeout
        if me is None:
            # unmanaged caller (sequential run): only time can help
            while not pred():
                times = []
                if deadline is not None:
                    times.append(deadline)
                w = wake() if wake is not None else None
                if w is not None:
                    times.append(w)
                times = [x for x in times if x > self.clock + EPS]
                if deadline is not None and deadline <= self.clock + EPS:
                    return pred()
                if not times:
                    if self.on_quiescent is not None:
                        self.on_quiescent(self)
                    raise SimHang(f"blocked forever: {where}")
                if self.on_quiescent is not None:
                    self.on_quiescent(self)
                self.clock = min(times)
            return True
        me.state = "blocked"
        me.timed_out = False
        me.pred = pred
        me.deadline = deadline
        me.wake = wake
        me.where = where or _where()
        self.steps += 1
        try:
            self._dispatch(me)
        finally:
            me.state = "ready"
            me.pred = None
            me.deadline = None
            me.wake = None
        if me.timed_out:
            me.timed_out = False
            return False
        return pred()

    def sleep(self, d: float) -> None:
        if d <= 0:
            self.yield_point("sleep")
            return
        target = self.clock + d
        self.block_until(lambda: self.clock + EPS >= target, None, lambda: target, where="sleep")


def _where() -> str:
    f = sys._getframe(2)
    out = []
    while f is not None and len(out) < 6:
        fn = f.f_code.co_filename
        if "httpcore" in fn:
            out.append(f"{fn.rsplit('/', 1)[-1]}:{f.f_lineno}")
        f = f.f_back
    return "<".join(out)


# ---------------------------------------------------------------------------------
# shim `threading` namespace given to httpcore._synchronization
# ---------------------------------------------------------------------------------
class ShimThreading:
    """Stands in for the `threading` module inside httpcore._synchronization."""

    def __init__(self, sched: Sched) -> None:
        self.sched = sched
        s = sched
        stats = self.stats = {"lock_acquire": 0, "lock_contended": 0, "event_wait": 0,
                              "event_blocked": 0, "sem_acquire": 0, "sem_blocked": 0}

        class Lock:
            def __init__(self) -> None:
                self.owner = None

            def acquire(self, blocking: bool = True, timeout: float = -1) -> bool:
                stats["lock_acquire"] += 1
                s.yield_point("lock")
                if self.owner is not None:
                    stats["lock_contended"] += 1
                    if not blocking:
                        return False
                    s.block_until(lambda: self.owner is None, None if timeout < 0 else timeout,
                                  where=None)
                    if self.owner is not None:
                        return False
                self.owner = _real_threading.get_ident()
                return True

            def release(self) -> None:
                if self.owner is None:
                    raise RuntimeError("release unlocked lock")
                self.owner = None
                s.yield_point("unlock")

            def locked(self) -> bool:
                return self.owner is not None

            __enter__ = acquire

            def __exit__(self, *a) -> None:
                self.release()

        class Event:
            def __init__(self) -> None:
                self.flag = False

            def set(self) -> None:
                self.flag = True
                s.yield_point("event.set")

            def is_set(self) -> bool:
                return self.flag

            def clear(self) -> None:
                self.flag = False

            def wait(self, timeout: float | None = None) -> bool:
                stats["event_wait"] += 1
                s.yield_point("event.wait")
                if not self.flag:
                    stats["event_blocked"] += 1
                    if not s.block_until(lambda: self.flag, timeout):
                        return False  # timed out - even if set() came in just afterwards
                return self.flag

        class Semaphore:
            def __init__(self, value: int = 1) -> None:
                self.value = value

            def acquire(self, blocking: bool = True, timeout: float | None = None) -> bool:
                stats["sem_acquire"] += 1
                s.yield_point("sem")
                if self.value <= 0:
                    stats["sem_blocked"] += 1
                    if not blocking:
                        return False
                    s.block_until(lambda: self.value > 0, timeout)
                    if self.value <= 0:
                        return False
                self.value -= 1
                return True

            def release(self, n: int = 1) -> None:
                self.value += n
                s.yield_point("sem.release")

        self.Lock = Lock
        self.Event = Event
        self.Semaphore = Semaphore
        self.get_ident = _real_threading.get_ident
        self.current_thread = _real_threading.current_thread


# ---------------------------------------------------------------------------------
# line-level pre-emption through sys.monitoring
# ---------------------------------------------------------------------------------
class LineMonitor:
    TOOL = 3

    def __init__(self, sched: Sched, prefixes: tuple[str, ...], opcode_prefixes: tuple[str, ...] = ()) -> None:
        self.sched = sched
        self.prefixes = prefixes
        self.opcode_prefixes = opcode_prefixes  # files in which pre-emption is possible between any two bytecodes
        self.lines = 0
        self.ops = 0
        self.active = False
        self.collect = None   # dict (file, line) -> times executed, when asked for
        self.target = None    # (file, line, occurrence): the thread that executes it loses the CPU there, once
        self.hits = 0
        self.fired = False

    def _cb_op(self, code, offset):
        if not code.co_filename.startswith(self.opcode_prefixes):
            return sys.monitoring.DISABLE
        if self.active and not self.sched.no_preempt:
            self.ops += 1
            self.sched.yield_point("op")

    def _cb(self, code, line):
        if not code.co_filename.startswith(self.prefixes):
            return sys.monitoring.DISABLE
        if self.active and not self.sched.no_preempt:
            self.lines += 1
            if self.collect is not None:
                key = (code.co_filename, line)
                self.collect[key] = self.collect.get(key, 0) + 1
            tg = self.target
            if tg is not None and line == tg[1] and code.co_filename == tg[0]:
                self.hits += 1
                if self.hits == tg[2]:
                    self.fired = True
                    self.sched.demote_current()
                    if len(tg) > 3 and tg[3]:
                        # ... and stays off the CPU for a while of virtual time (the others' I/O completes meanwhile)
                        self.sched.block_until(lambda: False, timeout=tg[3], where="pre-empted")
            self.sched.yield_point("line")

    def __enter__(self):
        m = sys.monitoring
        try:
            m.use_tool_id(self.TOOL, "hv-sched")
        except ValueError:
            m.free_tool_id(self.TOOL)
            m.use_tool_id(self.TOOL, "hv-sched")
        m.register_callback(self.TOOL, m.events.LINE, self._cb)
        ev = m.events.LINE
        if self.opcode_prefixes:
            m.register_callback(self.TOOL, m.events.INSTRUCTION, self._cb_op)
            ev |= m.events.INSTRUCTION
        m.set_events(self.TOOL, ev)
        m.restart_events()
        self.active = True
        return self

    def __exit__(self, *a):
        self.active = False
        m = sys.monitoring
        m.set_events(self.TOOL, 0)
        m.register_callback(self.TOOL, m.events.LINE, None)
        if self.opcode_prefixes:
            m.register_callback(self.TOOL, m.events.INSTRUCTION, None)
        m.free_tool_id(self.TOOL)
