"""hv — runtime-monitoring harness for encode/httpcore (see /verif/DESIGN.md).

Importing this package puts the tree under test (HV_REPO, default /repo) first on
sys.path so that `import httpcore` always executes the current working tree.
"""
import os
import sys

sys.dont_write_bytecode = True
REPO = os.environ.get("HV_REPO", "/repo")
if REPO not in sys.path[:1]:
    sys.path.insert(0, REPO)
VERIF = os.path.dirname(os.path.dirname(os.path.abspath(__file__)))
