"""Pool builders, flavour-independent API adapters (scenario code is written once in async
style and trampolined for the sync classes), ownership-by-reachability, pool inspection."""
from __future__ import annotations

import gc
import re

from . import REPO  # noqa: F401
import anyio
import httpcore

from . import simnet
from .simnet import Net, SimAsyncBackend, SimSyncBackend, RecordingSSLContext, Transport
from .sched import Sched

FLAVORS = ("asyncio", "trio", "sync")

DOCUMENTED = (httpcore.TimeoutException, httpcore.NetworkError, httpcore.ProtocolError,
              httpcore.ProxyError, httpcore.UnsupportedProtocol)


def is_async(flavor: str) -> bool:
    return flavor in ("asyncio", "trio")


def mk_pool(flavor: str, net: Net, proxy: dict | None = None, legacy_proxy: bool = False, **kw):
    """proxy: {'url':..., 'auth':(u,p)|None, 'headers':[...]|None, 'tls': bool}"""
    kw.setdefault("ssl_context", RecordingSSLContext("origin"))
    a = is_async(flavor)
    kw["network_backend"] = SimAsyncBackend(net) if a else SimSyncBackend(net)
    if proxy is not None:
        url = proxy["url"]
        pctx = proxy.get("ssl_context") or (RecordingSSLContext("proxy") if url.startswith("https") else None)
        if legacy_proxy:
            if url.startswith("socks5"):
                cls = httpcore.AsyncSOCKSProxy if a else httpcore.SOCKSProxy
                return cls(proxy_url=url, proxy_auth=proxy.get("auth"), **kw)
            cls = httpcore.AsyncHTTPProxy if a else httpcore.HTTPProxy
            return cls(proxy_url=url, proxy_auth=proxy.get("auth"), proxy_headers=proxy.get("headers"),
                       proxy_ssl_context=pctx, **kw)
        kw["proxy"] = httpcore.Proxy(url=url, auth=proxy.get("auth"), headers=proxy.get("headers"),
                                     ssl_context=pctx)
    cls = httpcore.AsyncConnectionPool if a else httpcore.ConnectionPool
    return cls(**kw)


async def A(x):
    """await x if it is awaitable (async flavour), else return it (sync flavour)."""
    if hasattr(x, "__await__"):
        return await x
    return x


def run_sync(coro):
    """Trampoline for scenario coroutines in sync flavour: they must never suspend."""
    try:
        coro.send(None)
    except StopIteration as stop:
        return stop.value
    coro.close()
    raise RuntimeError("hv: sync scenario suspended")


class AIter:
    def __init__(self, chunks, pause=None):
        self.chunks = list(chunks)
        self.pause = pause
        self.yielded = 0

    def __aiter__(self):
        return self._gen()

    async def _gen(self):
        for c in self.chunks:
            if self.pause is not None:
                await self.pause()
            self.yielded += 1
            yield c


class SIter:
    def __init__(self, chunks, pause=None):
        self.chunks = list(chunks)
        self.pause = pause
        self.yielded = 0

    def __iter__(self):
        for c in self.chunks:
            if self.pause is not None:
                self.pause()
            self.yielded += 1
            yield c


class API:
    """Uniform facade over AsyncConnectionPool / ConnectionPool."""

    def __init__(self, flavor: str, pool, net: Net) -> None:
        self.flavor = flavor
        self.pool = pool
        self.net = net
        self.a = is_async(flavor)

    def body(self, chunks, pause=None):
        return AIter(chunks, pause) if self.a else SIter(chunks, pause)

    async def request(self, method, url, headers=None, content=None, extensions=None):
        return await A(self.pool.request(method, url, headers=headers, content=content,
                                         extensions=extensions))

    async def open(self, method, url, headers=None, content=None, extensions=None):
        cm = self.pool.stream(method, url, headers=headers, content=content, extensions=extensions)
        if self.a:
            resp = await cm.__aenter__()
        else:
            resp = cm.__enter__()
        return resp, cm

    async def close(self, cm, exc=None):
        et = type(exc) if exc is not None else None
        if self.a:
            return await cm.__aexit__(et, exc, None)
        return cm.__exit__(et, exc, None)

    async def read(self, resp):
        if self.a:
            return await resp.aread()
        return resp.read()

    async def chunks(self, resp, limit=None):
        out = []
        if self.a:
            it = resp.aiter_stream()
            try:
                async for c in it:
                    out.append(c)
                    if limit is not None and len(out) >= limit:
                        break
            finally:
                await it.aclose()
        else:
            it = resp.iter_stream()
            try:
                for c in it:
                    out.append(c)
                    if limit is not None and len(out) >= limit:
                        break
            finally:
                it.close()
        return out

    async def close_pool(self):
        if self.a:
            await self.pool.aclose()
        else:
            self.pool.close()

    async def sleep(self, d: float):
        if self.a:
            await anyio.sleep(d)
        else:
            self.net.sched.sleep(d)

    async def ns_read(self, ns, n, timeout=None):
        return await A(ns.read(n, timeout))

    async def ns_write(self, ns, data, timeout=None):
        return await A(ns.write(data, timeout))


# ---------------------------------------------------------------------------------
# ownership by reachability
# ---------------------------------------------------------------------------------
_CONTAINERS = (list, tuple, dict, set, frozenset)


def owned_transports(root) -> set[int]:
    """Transport ids reachable from `root` through httpcore objects and builtin containers."""
    seen = set()
    out: set[int] = set()
    stack = [root]
    while stack:
        o = stack.pop()
        i = id(o)
        if i in seen:
            continue
        seen.add(i)
        if isinstance(o, (simnet.SimAsyncStream, simnet.SimSyncStream)):
            out.add(o.tr.id)
            continue
        if isinstance(o, (Transport, Net, type)):
            continue
        if isinstance(o, _CONTAINERS) or (type(o).__module__ or "").startswith("httpcore"):
            stack.extend(gc.get_referents(o))
    return out


def h2_credit_leaks(pool) -> list[dict]:
    """Connection-level flow-control credit that live HTTP/2 connections of the pool owe and have not even noted down.

    To be asked at quiescence with no response open: by then every DATA byte that has arrived was either consumed or given up,
    so what the client's window manager (h2 package) has received but neither returned nor queued for return must be zero:
    max_window - current_window - bytes_processed == 0. The h2 state objects are found by reachability from pool.connections."""
    import h2.connection
    out = []
    seen = set()
    stack = list(pool.connections)
    while stack:
        o = stack.pop()
        if id(o) in seen:
            continue
        seen.add(id(o))
        if isinstance(o, h2.connection.H2Connection):
            if o.state_machine.state == h2.connection.ConnectionState.CLOSED:
                continue
            wm = o._inbound_flow_control_window_manager
            owed = wm.max_window_size - wm.current_window_size - wm._bytes_processed
            if owed != 0:
                out.append({"owed": owed, "window": wm.current_window_size, "max": wm.max_window_size, "noted": wm._bytes_processed})
            continue
        if isinstance(o, (Transport, Net, type, simnet.SimAsyncStream, simnet.SimSyncStream)):
            continue
        if isinstance(o, _CONTAINERS) or (type(o).__module__ or "").startswith("httpcore"):
            stack.extend(gc.get_referents(o))
    return out


POOL_RE = re.compile(r"Requests: (\d+) active, (\d+) queued \| Connections: (\d+) active, (\d+) idle")


def pool_counts(pool) -> dict:
    m = POOL_RE.search(repr(pool))
    if not m:
        return {}
    a, q, ca, ci = map(int, m.groups())
    return {"req_active": a, "req_queued": q, "conn_active": ca, "conn_idle": ci}


def conn_state(c) -> dict:
    return {"info": c.info(), "idle": c.is_idle(), "closed": c.is_closed(),
            "expired": c.has_expired(), "available": c.is_available(), "cls": type(c).__name__}


def exc_name(exc: BaseException) -> str:
    t = type(exc)
    return f"{t.__module__}.{t.__qualname__}"


def documented(exc: BaseException) -> bool:
    return isinstance(exc, DOCUMENTED)


_SYNC_SAVED: list = []


def sync_env(net: Net, sched: Sched | None = None):
    """Prepare the sync flavour for a sequential run: virtual clock, and the shim `threading` namespace so that a
    call that would block for ever (pool queue, lock) raises SimHang instead of blocking the real thread."""
    from .runners import patch_time
    from .sched import ShimThreading
    import httpcore._synchronization as sync_mod
    s = sched or Sched()
    if net is not None:
        net.sched = s
        net.now = s.now
    simnet.ENV["now"] = s.now
    simnet.ENV["sched"] = s
    patch_time(s.now)
    if not _SYNC_SAVED:
        _SYNC_SAVED.append(sync_mod.threading)
    sync_mod.threading = ShimThreading(s)
    return s


def sync_env_restore():
    from . import runners
    import httpcore._synchronization as sync_mod
    runners.unpatch_time()
    simnet.ENV["now"] = None
    simnet.ENV["sched"] = None
    if _SYNC_SAVED:
        sync_mod.threading = _SYNC_SAVED.pop()


def run_flavor(flavor: str, net: Net, fn, seed: int = 0, on_idle=None):
    """Run `await fn()` under the given flavour ('asyncio' | 'trio' | 'sync')."""
    from . import runners
    if is_async(flavor):
        return runners.run_async(flavor, fn, net, seed, on_idle)
    s = sync_env(net)
    s.on_quiescent = (lambda _s: on_idle()) if on_idle is not None else None
    try:
        return run_sync(fn())
    finally:
        sync_env_restore()


def _find_simhang(eg):
    for e in eg.exceptions:
        if isinstance(e, simnet.SimHang):
            return e
        if isinstance(e, BaseExceptionGroup):
            r = _find_simhang(e)
            if r is not None:
                return r
    return None


async def guarded(flavor: str, fn, horizon: float = 1.0e5):
    """Run one scenario `await fn()`; returns an Outcome (ok | exc | hang). 'hang' means the
    virtual-time watchdog fired (async) or the call could never be woken (sync)."""
    from .runners import Outcome, reset_spin
    if is_async(flavor):
        reset_spin()
        with anyio.move_on_after(horizon) as scope:
            try:
                return Outcome("ok", await fn())
            except Exception as exc:  # noqa
                return Outcome("exc", exc=exc)
            except simnet.SimHang as exc:
                return Outcome("hang", value=str(exc))
            except BaseExceptionGroup as eg:
                # the operation budget ran out in one of several tasks of the scenario: the task group wraps it
                hang = _find_simhang(eg)
                if hang is None:
                    raise
                return Outcome("hang", value=str(hang))
        if scope.cancelled_caught:
            return Outcome("hang", value="virtual watchdog")
        return Outcome("ok", None)
    try:
        return Outcome("ok", await fn())
    except Exception as exc:  # noqa
        return Outcome("exc", exc=exc)
    except simnet.SimHang as exc:
        return Outcome("hang", value=str(exc))


def run_threaded(setup, seed: int = 0, strategy: str = "random", p: float = 0.1, lines: bool = False,
                 depth: int = 2, est_steps: int = 3000, wall_timeout: float = 60.0, p_jump: float = 0.0,
                 opcodes: bool = False, target=None, collect: bool = False):
    """Run callers on real threads under the controlled scheduler.

    setup(sched) -> dict name -> zero-arg function (run in its own managed thread); it is called after the
    shim `threading` namespace has been installed, so pools created inside it use shim locks.
    Returns (sched, {name: Outcome}, shim)."""
    import httpcore._synchronization as sync_mod
    from . import runners
    from .sched import ShimThreading, LineMonitor
    import os

    s = Sched(seed, strategy, p, depth=depth, est_steps=est_steps)
    s.p_jump = p_jump
    shim = ShimThreading(s)
    real = sync_mod.threading
    sync_mod.threading = shim
    simnet.ENV["now"] = s.now
    simnet.ENV["sched"] = s
    runners.patch_time(s.now)
    outcomes: dict = {}
    try:
        callers = setup(s)

        def wrap(name, fn):
            def body():
                simnet.CALL.set(name)
                try:
                    outcomes[name] = runners.Outcome("ok", fn(), t=s.now())
                except Exception as exc:  # noqa
                    outcomes[name] = runners.Outcome("exc", exc=exc, t=s.now())
            return body

        for name, fn in callers.items():
            s.spawn(wrap(name, fn), name)
        if lines:
            import httpcore
            base = os.path.dirname(httpcore.__file__)
            prefixes = (os.path.join(base, "_sync") + os.sep, os.path.join(base, "_synchronization.py"))
            # opcodes=True: inside the pool module a thread can also lose the CPU between any two bytecodes of a line
            op_prefixes = (os.path.join(base, "_sync", "connection_pool.py"),) if opcodes else ()
            lm = LineMonitor(s, prefixes, op_prefixes)
            lm.target = target
            lm.collect = {} if collect else None
            with lm:
                ok = s.run(wall_timeout)
            s.line_seen = lm.collect
            s.target_fired = lm.fired
            s.line_events = lm.lines
            s.op_events = lm.ops
        else:
            ok = s.run(wall_timeout)
            s.line_events = 0
            s.op_events = 0
        s.wall_ok = ok
    finally:
        sync_mod.threading = real
        runners.unpatch_time()
        simnet.ENV["now"] = None
        simnet.ENV["sched"] = None
    return s, outcomes, shim
