"""Simulated network behind httpcore's public NetworkBackend / NetworkStream interface.

One sans-IO core (`Net`, `Transport`) and two facades: async (anyio API, which runs on
both asyncio and trio) and sync (driven by hv.sched.Sched, also with a single thread).

Operation template (see DESIGN §3.1): record call -> cancellable checkpoint -> injected
fault? -> [park for latency / for data, honouring timeout=] -> effect -> record return.
The effect is atomic with the return (no yield after it), so the simulator itself can
never lose a stream it created.
"""
from __future__ import annotations

import collections
import contextvars
import ssl
import typing

from . import REPO  # noqa: F401  (sys.path side effect)

import httpcore

CALL: contextvars.ContextVar = contextvars.ContextVar("hv_call", default=None)

EPS = 1e-9

CONNECT_FAULTS = ("ConnectError", "ConnectTimeout")
TLS_FAULTS = ("ConnectError", "ConnectTimeout")
READ_FAULTS = ("ReadError", "ReadTimeout", "EOF")
WRITE_FAULTS = ("WriteError", "WriteTimeout", "PartialWrite")
# ("WriteErrorSoft" - the write fails, the transport lives on - is only injected by scenarios in which the peer has
# already answered: elsewhere httpcore, by design, goes on to read a response that a peer which never got the request
# will not send, and the "hang" says nothing about the library)
FAULTS_FOR = {
    "connect": CONNECT_FAULTS,
    "start_tls": TLS_FAULTS,
    "read": READ_FAULTS,
    "write": WRITE_FAULTS,
}


# runtime environment picked up by Net(): set by the runners / sync_env
ENV: dict = {"now": None, "sched": None}
NETS_CREATED: list | None = None  # set to a list to collect every Net built (differential runs)


class RecordingSSLContext(ssl.SSLContext):
    """An ssl.SSLContext that remembers the ALPN list last set on it."""

    def __new__(cls, name: str = "ctx"):
        self = super().__new__(cls, ssl.PROTOCOL_TLS_CLIENT)
        return self

    def __init__(self, name: str = "ctx") -> None:
        self.hv_name = name
        self.hv_alpn: list[str] | None = None

    def set_alpn_protocols(self, protos):  # type: ignore[override]
        self.hv_alpn = list(protos)
        super().set_alpn_protocols(protos)


class SSLObject:
    def __init__(self, alpn: str | None) -> None:
        self._alpn = alpn

    def selected_alpn_protocol(self) -> str | None:
        return self._alpn


class Segmentation:
    """How the server's byte stream is cut into reads."""

    def __init__(self, mode: str = "all", arg: typing.Any = None, rng=None) -> None:
        self.mode = mode
        self.arg = arg
        self.rng = rng
        if mode == "cuts":
            self.arg = sorted(set(arg))

    def limit(self, consumed: int, available: int) -> int:
        if self.mode == "all":
            return available
        if self.mode == "fixed":
            return min(self.arg, available)
        if self.mode == "cuts":
            for c in self.arg:
                if c > consumed:
                    return min(c - consumed, available)
            return available
        if self.mode == "random":
            if available <= 1:
                return available
            r = self.rng.random()
            if r < 0.3:
                return 1
            if r < 0.5:
                return available
            return self.rng.randint(1, available)
        raise ValueError(self.mode)

    def describe(self):
        if self.mode == "cuts":
            return ["cuts", list(self.arg)[:8]]
        return [self.mode, self.arg if self.mode == "fixed" else None]


class Transport:
    def __init__(self, net: "Net", tid: int, target, handler, call) -> None:
        self.net = net
        self.id = tid
        self.target = target  # (host, port) or ("uds", path)
        self.handler = handler
        self.opened_by = call
        self.opened_at = net.now()
        self.closed = False
        self.closed_by = None
        self.close_calls = 0
        self.broken = False  # an injected hard fault broke the socket
        self.layers: list[dict] = []
        self.inbox: collections.deque = collections.deque()  # [ready_at, bytes|None]
        self.last_ready = 0.0
        self.produced = 0  # bytes sent by the server side
        self.consumed = 0  # bytes handed to the client by read()
        self.server_closed = False  # EOF queued
        self.eof_delivered = False
        self.written = 0  # bytes written by the client
        self.readers = 0
        self.writers = 0
        self.seg: Segmentation = net.segmentation
        self._event = None  # async waiters
        self.meta: dict = {}

    # -- server side ---------------------------------------------------------
    def send(self, data: bytes, delay: float = 0.0) -> None:
        if not data or self.server_closed:
            return
        t = max(self.net.now() + delay, self.last_ready)
        self.last_ready = t
        self.inbox.append([t, bytes(data)])
        self.produced += len(data)
        self.net.log("srv.send", tr=self.id, n=len(data), at=t)
        self.wake()

    def server_close(self, delay: float = 0.0) -> None:
        if self.server_closed:
            return
        t = max(self.net.now() + delay, self.last_ready)
        self.last_ready = t
        self.inbox.append([t, None])
        self.server_closed = True
        self.net.log("srv.close", tr=self.id, at=t)
        self.wake()

    # -- client side ---------------------------------------------------------
    def readable(self) -> bool:
        return bool(self.inbox) and self.inbox[0][0] <= self.net.now() + EPS

    def server_eof_visible(self) -> bool:
        """Has the server's close already happened (in virtual time)?"""
        return any(e[1] is None and e[0] <= self.net.now() + EPS for e in self.inbox)

    def next_ready(self):
        return self.inbox[0][0] if self.inbox else None

    def take(self, max_bytes: int) -> bytes:
        """Precondition: readable()."""
        now = self.net.now() + EPS
        if self.inbox[0][1] is None:
            self.eof_delivered = True
            return b""
        avail = 0
        for t, d in self.inbox:
            if d is None or t > now:
                break
            avail += len(d)
            if avail >= max_bytes:
                break
        n = self.seg.limit(self.consumed, min(avail, max_bytes))
        n = max(1, min(n, avail, max_bytes))
        out = bytearray()
        while len(out) < n:
            t, d = self.inbox[0]
            need = n - len(out)
            if len(d) <= need:
                out += d
                self.inbox.popleft()
            else:
                out += d[:need]
                self.inbox[0][1] = d[need:]
        self.consumed += len(out)
        return bytes(out)

    def wake(self) -> None:
        ev = self._event
        if ev is not None:
            self._event = None
            ev.set()

    def do_close(self, who) -> None:
        self.close_calls += 1
        if not self.closed:
            self.closed = True
            self.closed_by = who
            self.net.open_count -= 1
            self.net.log("close", tr=self.id, who=who)
            h = self.handler
            if h is not None and hasattr(h, "on_client_close"):
                h.on_client_close(self)
            self.wake()

    def __repr__(self) -> str:
        return f"<T{self.id} {self.target} {'closed' if self.closed else 'open'} L{len(self.layers)}>"


class Net:
    """The simulated world: endpoints, transports, ledger, fault plan."""

    def __init__(self, seed: int = 0) -> None:
        self.seed = seed
        self.now: typing.Callable[[], float] = ENV["now"] or (lambda: 1000.0)
        self.endpoints: dict = {}  # (host, port) | ("uds", path) -> factory(net, target)
        self.transports: list[Transport] = []
        self.events: list[dict] = []
        self.observers: list = []
        self.ops: list[tuple] = []  # (idx, kind, tr id, call)
        self.op_index = 0
        self.faults: dict[int, str] = {}
        self.fault_fired: list = []
        self.latency: typing.Callable[[str, int], float] | None = None
        self.segmentation = Segmentation("all")
        self.open_count = 0
        self.sched = ENV["sched"]  # set by the sync runner
        self.op_budget = 400_000
        self.hops = None  # optional callable(kind, idx) -> extra scheduler round-trips an operation takes (same instant)
        self.write_after_server_close = "error"
        self.sleeps: list[float] = []
        self.log_events = True
        self.busy_events = 0
        self.on_fault = None
        if NETS_CREATED is not None:
            NETS_CREATED.append(self)

    # -- registry ------------------------------------------------------------
    def add(self, host: str, port: int, factory) -> None:
        self.endpoints[(host, port)] = factory

    def add_uds(self, path: str, factory) -> None:
        self.endpoints[("uds", path)] = factory

    # -- ledger --------------------------------------------------------------
    def log(self, ev: str, **kw) -> dict:
        rec = {"seq": len(self.events), "t": self.now(), "ev": ev, "call": CALL.get()}
        rec.update(kw)
        if self.log_events:
            self.events.append(rec)
        if self.observers:
            # monitors run atomically with the event they observe: no line-level pre-emption while they read pool state
            s = ENV.get("sched")
            if s is not None:
                s.no_preempt += 1
            try:
                for ob in self.observers:
                    ob(rec)
            finally:
                if s is not None:
                    s.no_preempt -= 1
        return rec

    def open_transports(self) -> list[Transport]:
        return [t for t in self.transports if not t.closed]

    # -- operations shared by both facades -------------------------------------
    def begin_op(self, kind: str, tr, **kw) -> tuple[int, str | None]:
        idx = self.op_index
        self.op_index += 1
        if idx > self.op_budget:
            raise SimHang(f"livelock: more than {self.op_budget} network operations")
        call = CALL.get()
        self.ops.append((idx, kind, tr.id if tr is not None else None, call))
        self.log(kind + ".call", tr=tr.id if tr is not None else None, op=idx, **kw)
        fault = self.faults.get(idx)
        if fault is not None and fault not in FAULTS_FOR[kind] and not (kind == "write" and fault == "WriteErrorSoft"):
            fault = None
        return idx, fault

    def lat(self, kind: str, idx: int) -> float:
        if self.latency is None:
            return 0.0
        return self.latency(kind, idx)

    def raise_fault(self, fault: str, kind: str, tr, idx: int):
        self.fault_fired.append((idx, kind, fault))
        self.log("fault", tr=tr.id if tr is not None else None, op=idx, fault=fault)
        if self.on_fault is not None:
            self.on_fault(idx, kind, fault)
        if fault in ("ReadError", "WriteError", "PartialWrite") and tr is not None:
            tr.broken = True
        exc = {
            "ConnectError": httpcore.ConnectError,
            "ConnectTimeout": httpcore.ConnectTimeout,
            "ReadError": httpcore.ReadError,
            "ReadTimeout": httpcore.ReadTimeout,
            "WriteError": httpcore.WriteError,
            "WriteTimeout": httpcore.WriteTimeout,
            "PartialWrite": httpcore.WriteError,
            # a write that fails while the peer's bytes can still be read (it has answered already and stopped listening)
            "WriteErrorSoft": httpcore.WriteError,
        }[fault]
        raise exc(f"injected {fault} at op {idx}")

    def do_connect(self, target, idx: int) -> Transport:
        factory = self.endpoints.get(target)
        if factory is None:
            self.log("connect.refused", target=target, op=idx)
            raise httpcore.ConnectError(f"simnet: nothing listens on {target}")
        tr = Transport(self, len(self.transports), target, None, CALL.get())
        self.transports.append(tr)
        self.open_count += 1
        tr.handler = factory(self, tr)
        self.log("connect.ret", tr=tr.id, target=target, op=idx)
        return tr

    def do_start_tls(self, tr: Transport, ssl_context, server_hostname, timeout, idx):
        info = {
            "sni": server_hostname,
            "alpn_offered": getattr(ssl_context, "hv_alpn", None),
            "ctx": getattr(ssl_context, "hv_name", None),
            "timeout": timeout,
            "alpn": None,
        }
        try:
            info["alpn"] = tr.handler.on_tls(tr, info)
        except TLSFailure as exc:
            tr.do_close("backend:tls-failure")
            raise httpcore.ConnectError(str(exc))
        except Exception as exc:
            raise HarnessBug(f"endpoint raised {exc!r}") from exc
        tr.layers.append(info)
        self.log("start_tls.ret", tr=tr.id, op=idx, sni=server_hostname,
                 alpn_offered=info["alpn_offered"], alpn=info["alpn"], ctx=info["ctx"],
                 layer=len(tr.layers))
        return info

    def do_write(self, tr: Transport, data: bytes, idx) -> None:
        tr.written += len(data)
        self.log("write.ret", tr=tr.id, op=idx, n=len(data), layer=len(tr.layers), data=data)
        try:
            tr.handler.feed(tr, data)
        except Exception as exc:  # an endpoint bug must never look like client behaviour
            raise HarnessBug(f"endpoint raised {exc!r}") from exc


class TLSFailure(Exception):
    pass


class HarnessBug(BaseException):
    """The simulator itself failed; never a verdict about httpcore."""


class SimHang(BaseException):
    """Raised in sync mode when a call would block forever (nothing can wake it)."""


# ---------------------------------------------------------------------------------
# async facade (anyio API: runs under asyncio and under trio)
# ---------------------------------------------------------------------------------
import anyio  # noqa: E402
import anyio.lowlevel  # noqa: E402


async def _hops(net, kind, idx) -> None:
    """Same-instant scheduling jitter: the operation completes a few scheduler round-trips later (each one a
    cancellable checkpoint, before the operation has had any effect)."""
    if net.hops is not None:
        for _ in range(net.hops(kind, idx)):
            await anyio.lowlevel.checkpoint()


class SimAsyncStream(httpcore.AsyncNetworkStream):
    def __init__(self, net: Net, tr: Transport, layer: int) -> None:
        self.net = net
        self.tr = tr
        self.layer = layer

    async def _park(self, d: float, timeout, exc_cls) -> None:
        """Virtual latency d; honour timeout."""
        if timeout is not None and d > timeout:
            await anyio.sleep(timeout)
            raise exc_cls("simnet: timed out")
        await anyio.sleep(d)

    async def read(self, max_bytes: int, timeout: float | None = None) -> bytes:
        net, tr = self.net, self.tr
        idx, fault = net.begin_op("read", tr, timeout=timeout, max_bytes=max_bytes, layer=self.layer)
        tr.readers += 1
        if tr.readers > 1:
            net.busy_events += 1
            net.log("busy", tr=tr.id, what="read")
        try:
            await anyio.lowlevel.checkpoint()
            await _hops(net, "read", idx)
            if tr.closed or tr.broken:
                net.log("read.dead", tr=tr.id, op=idx)
                raise httpcore.ReadError("simnet: read on closed/broken stream")
            if fault == "EOF":
                net.fault_fired.append((idx, "read", fault))
                net.log("fault", tr=tr.id, op=idx, fault=fault)
                if net.on_fault is not None:
                    net.on_fault(idx, "read", fault)
                tr.inbox.clear()
                tr.server_closed = False
                tr.server_close()
            elif fault is not None:
                net.raise_fault(fault, "read", tr, idx)
            d = net.lat("read", idx)
            deadline = None if timeout is None else net.now() + timeout
            if d > 0:
                await self._park(d, timeout, httpcore.ReadTimeout)
            while not tr.readable():
                if tr.closed:
                    raise httpcore.ReadError("simnet: stream closed while reading")
                now = net.now()
                if deadline is not None and now >= deadline - EPS:
                    net.log("read.timeout", tr=tr.id, op=idx)
                    raise httpcore.ReadTimeout("simnet: read timed out")
                nxt = tr.next_ready()
                until = nxt
                if deadline is not None:
                    until = deadline if until is None else min(until, deadline)
                if nxt is not None:
                    await anyio.sleep(max(until - now, 0))
                else:
                    if tr._event is None:
                        tr._event = anyio.Event()
                    ev = tr._event
                    if until is None:
                        await ev.wait()
                    else:
                        with anyio.move_on_after(max(until - now, 0)):
                            await ev.wait()
            if tr.closed:
                raise httpcore.ReadError("simnet: stream closed while reading")
            data = tr.take(max_bytes)
            net.log("read.ret", tr=tr.id, op=idx, n=len(data), layer=self.layer)
            return data
        finally:
            tr.readers -= 1

    async def write(self, buffer: bytes, timeout: float | None = None) -> None:
        net, tr = self.net, self.tr
        if not buffer:
            net.log("write.empty", tr=tr.id, timeout=timeout)
            return
        idx, fault = net.begin_op("write", tr, timeout=timeout, n=len(buffer), layer=self.layer)
        tr.writers += 1
        if tr.writers > 1:
            net.busy_events += 1
            net.log("busy", tr=tr.id, what="write")
        try:
            await anyio.lowlevel.checkpoint()
            await _hops(net, "write", idx)
            if tr.closed or tr.broken:
                net.log("write.dead", tr=tr.id, op=idx)
                raise httpcore.WriteError("simnet: write on closed/broken stream")
            if fault == "PartialWrite":
                net.do_write(tr, bytes(buffer[: max(1, len(buffer) // 2)]), idx)
                net.raise_fault(fault, "write", tr, idx)
            elif fault is not None:
                net.raise_fault(fault, "write", tr, idx)
            if tr.server_eof_visible() and net.write_after_server_close == "error":
                net.log("write.epipe", tr=tr.id, op=idx)
                raise httpcore.WriteError("simnet: peer closed")
            d = net.lat("write", idx)
            if d > 0:
                await self._park(d, timeout, httpcore.WriteTimeout)
                if tr.closed:
                    raise httpcore.WriteError("simnet: stream closed while writing")
            net.do_write(tr, bytes(buffer), idx)
        finally:
            tr.writers -= 1

    async def aclose(self) -> None:
        self.net.log("close.call", tr=self.tr.id, layer=self.layer)
        self.tr.do_close(CALL.get())
        await anyio.lowlevel.checkpoint()

    async def start_tls(self, ssl_context, server_hostname=None, timeout=None):
        net, tr = self.net, self.tr
        idx, fault = net.begin_op("start_tls", tr, timeout=timeout, sni=server_hostname)
        await anyio.lowlevel.checkpoint()
        if tr.closed or tr.broken:
            raise httpcore.ConnectError("simnet: start_tls on closed stream")
        if fault is not None:
            tr.do_close("backend:tls-failure")
            net.raise_fault(fault, "start_tls", tr, idx)
        d = net.lat("start_tls", idx)
        if d > 0:
            try:
                await self._park(d, timeout, httpcore.ConnectTimeout)
            except httpcore.ConnectTimeout:
                tr.do_close("backend:tls-failure")
                raise
        net.do_start_tls(tr, ssl_context, server_hostname, timeout, idx)
        return SimAsyncStream(net, tr, len(tr.layers))

    def get_extra_info(self, info: str) -> typing.Any:
        tr = self.tr
        if info == "ssl_object":
            return SSLObject(tr.layers[-1]["alpn"]) if tr.layers else None
        if info == "is_readable":
            ans = tr.closed or tr.readable()
            hook = getattr(tr, "after_poll", None)
            if hook is not None:
                # adversarial timing: something happens right after the client looked (the server hangs up, time passes)
                tr.after_poll = None
                hook()
            return ans
        if info == "hv_transport":
            return tr
        if info == "server_addr":
            return tr.target
        return None

    def __repr__(self) -> str:
        return f"<SimAsyncStream T{self.tr.id} L{self.layer}>"


class SimAsyncBackend(httpcore.AsyncNetworkBackend):
    def __init__(self, net: Net) -> None:
        self.net = net

    async def _connect(self, target, timeout, extra) -> SimAsyncStream:
        net = self.net
        idx, fault = net.begin_op("connect", None, target=target, timeout=timeout, **extra)
        await anyio.lowlevel.checkpoint()
        await _hops(net, "connect", idx)
        if fault is not None:
            net.raise_fault(fault, "connect", None, idx)
        d = net.lat("connect", idx)
        if d > 0:
            if timeout is not None and d > timeout:
                await anyio.sleep(timeout)
                raise httpcore.ConnectTimeout("simnet: connect timed out")
            await anyio.sleep(d)
        tr = net.do_connect(target, idx)
        return SimAsyncStream(net, tr, 0)

    async def connect_tcp(self, host, port, timeout=None, local_address=None, socket_options=None):
        return await self._connect((host, port), timeout,
                                   {"local_address": local_address, "socket_options": socket_options})

    async def connect_unix_socket(self, path, timeout=None, socket_options=None):
        return await self._connect(("uds", path), timeout, {"socket_options": socket_options})

    async def sleep(self, seconds: float) -> None:
        self.net.sleeps.append(seconds)
        self.net.log("sleep", d=seconds)
        await anyio.sleep(seconds)


# ---------------------------------------------------------------------------------
# sync facade (driven by hv.sched.Sched)
# ---------------------------------------------------------------------------------
DETACH_ON_START_TLS = True  # C18 switches this off: it compares the sync trace with the async one event for event


class SimSyncStream(httpcore.NetworkStream):
    def __init__(self, net: Net, tr: Transport, layer: int) -> None:
        self.net = net
        self.tr = tr
        self.layer = layer
        self.detached = False  # True once start_tls() has handed the descriptor to the stream it returned

    def _park(self, d, timeout, exc_cls) -> None:
        s = self.net.sched
        if timeout is not None and d > timeout:
            s.sleep(timeout)
            raise exc_cls("simnet: timed out")
        s.sleep(d)

    def read(self, max_bytes: int, timeout: float | None = None) -> bytes:
        net, tr, s = self.net, self.tr, self.net.sched
        idx, fault = net.begin_op("read", tr, timeout=timeout, max_bytes=max_bytes, layer=self.layer)
        tr.readers += 1
        if tr.readers > 1:
            net.busy_events += 1
            net.log("busy", tr=tr.id, what="read")
        try:
            s.yield_point("net")
            if tr.closed or tr.broken:
                net.log("read.dead", tr=tr.id, op=idx)
                raise httpcore.ReadError("simnet: read on closed/broken stream")
            if fault == "EOF":
                net.fault_fired.append((idx, "read", fault))
                net.log("fault", tr=tr.id, op=idx, fault=fault)
                if net.on_fault is not None:
                    net.on_fault(idx, "read", fault)
                tr.inbox.clear()
                tr.server_closed = False
                tr.server_close()
            elif fault is not None:
                net.raise_fault(fault, "read", tr, idx)
            d = net.lat("read", idx)
            if d > 0:
                self._park(d, timeout, httpcore.ReadTimeout)
            ok = s.block_until(lambda: tr.readable() or tr.closed, timeout, tr.next_ready)
            if tr.closed:
                raise httpcore.ReadError("simnet: stream closed while reading")
            if not ok:
                net.log("read.timeout", tr=tr.id, op=idx)
                raise httpcore.ReadTimeout("simnet: read timed out")
            data = tr.take(max_bytes)
            net.log("read.ret", tr=tr.id, op=idx, n=len(data), layer=self.layer)
            return data
        finally:
            tr.readers -= 1

    def write(self, buffer: bytes, timeout: float | None = None) -> None:
        net, tr, s = self.net, self.tr, self.net.sched
        if not buffer:
            net.log("write.empty", tr=tr.id, timeout=timeout)
            return
        idx, fault = net.begin_op("write", tr, timeout=timeout, n=len(buffer), layer=self.layer)
        tr.writers += 1
        if tr.writers > 1:
            net.busy_events += 1
            net.log("busy", tr=tr.id, what="write")
        try:
            s.yield_point("net")
            if tr.closed or tr.broken:
                net.log("write.dead", tr=tr.id, op=idx)
                raise httpcore.WriteError("simnet: write on closed/broken stream")
            if fault == "PartialWrite":
                net.do_write(tr, bytes(buffer[: max(1, len(buffer) // 2)]), idx)
                net.raise_fault(fault, "write", tr, idx)
            elif fault is not None:
                net.raise_fault(fault, "write", tr, idx)
            if tr.server_eof_visible() and net.write_after_server_close == "error":
                net.log("write.epipe", tr=tr.id, op=idx)
                raise httpcore.WriteError("simnet: peer closed")
            d = net.lat("write", idx)
            if d > 0:
                self._park(d, timeout, httpcore.WriteTimeout)
                if tr.closed:
                    raise httpcore.WriteError("simnet: stream closed while writing")
            net.do_write(tr, bytes(buffer), idx)
        finally:
            tr.writers -= 1

    def close(self) -> None:
        self.net.log("close.call", tr=self.tr.id, layer=self.layer)
        if self.detached and DETACH_ON_START_TLS:
            # as with the real synchronous back-end: ssl.wrap_socket() moved the descriptor into the TLS socket object and
            # left this one detached - closing it closes nothing
            return
        self.tr.do_close(CALL.get())
        self.net.sched.yield_point("net")

    def start_tls(self, ssl_context, server_hostname=None, timeout=None):
        net, tr, s = self.net, self.tr, self.net.sched
        idx, fault = net.begin_op("start_tls", tr, timeout=timeout, sni=server_hostname)
        s.yield_point("net")
        if tr.closed or tr.broken:
            raise httpcore.ConnectError("simnet: start_tls on closed stream")
        if fault is not None:
            tr.do_close("backend:tls-failure")
            net.raise_fault(fault, "start_tls", tr, idx)
        d = net.lat("start_tls", idx)
        if d > 0:
            try:
                self._park(d, timeout, httpcore.ConnectTimeout)
            except httpcore.ConnectTimeout:
                tr.do_close("backend:tls-failure")
                raise
        net.do_start_tls(tr, ssl_context, server_hostname, timeout, idx)
        self.detached = True
        return SimSyncStream(net, tr, len(tr.layers))

    def get_extra_info(self, info: str) -> typing.Any:
        tr = self.tr
        if info == "ssl_object":
            return SSLObject(tr.layers[-1]["alpn"]) if tr.layers else None
        if info == "is_readable":
            ans = tr.closed or tr.readable()
            hook = getattr(tr, "after_poll", None)
            if hook is not None:
                # adversarial timing: something happens right after the client looked (the server hangs up, time passes)
                tr.after_poll = None
                hook()
            return ans
        if info == "hv_transport":
            return tr
        if info == "server_addr":
            return tr.target
        return None

    def __repr__(self) -> str:
        return f"<SimSyncStream T{self.tr.id} L{self.layer}>"


class SimSyncBackend(httpcore.NetworkBackend):
    def __init__(self, net: Net) -> None:
        self.net = net

    def _connect(self, target, timeout, extra) -> SimSyncStream:
        net, s = self.net, self.net.sched
        idx, fault = net.begin_op("connect", None, target=target, timeout=timeout, **extra)
        s.yield_point("net")
        if fault is not None:
            net.raise_fault(fault, "connect", None, idx)
        d = net.lat("connect", idx)
        if d > 0:
            if timeout is not None and d > timeout:
                s.sleep(timeout)
                raise httpcore.ConnectTimeout("simnet: connect timed out")
            s.sleep(d)
        tr = net.do_connect(target, idx)
        return SimSyncStream(net, tr, 0)

    def connect_tcp(self, host, port, timeout=None, local_address=None, socket_options=None):
        return self._connect((host, port), timeout,
                             {"local_address": local_address, "socket_options": socket_options})

    def connect_unix_socket(self, path, timeout=None, socket_options=None):
        return self._connect(("uds", path), timeout, {"socket_options": socket_options})

    def sleep(self, seconds: float) -> None:
        self.net.sleeps.append(seconds)
        self.net.log("sleep", d=seconds)
        self.net.sched.sleep(seconds)
