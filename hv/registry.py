"""Per-property registry: what is claimed, at which level, with which technique."""
CHECKS = {
    "C02": dict(category="exploration", design_ref="DESIGN §4 C02",
                technique="runtime monitoring: ground-truth equality oracle on responses over generated framings x read segmentations x truncation points (simulated network, real httpcore)",
                text="Every generated well-formed response (HTTP/1.1 framings, HTTP/2 DATA layouts) is delivered through the real client under all-at-once, 1-byte, random and every-single-cut segmentations and compared byte for byte with what the harness endpoint serialised; every truncation point of small wires must raise or deliver the complete response. Exploration, not proof: held on the executions counted in the evidence.",
                note="Trusts the harness serialiser/endpoints (own code, no h11) and the simulated NetworkBackend; close-delimited bodies excluded from the truncation oracle."),
    "C03": dict(category="exploration", design_ref="DESIGN §4 C03",
                technique="runtime monitoring: wire bytes decoded by an independent HTTP/1.1 parser / h2 server role and compared with the caller's request per transmission attempt",
                text="Generated requests (methods, targets incl. 'target' extension, header lists, bytes/iterator bodies) are sent through the real pool on HTTP/1.1 and HTTP/2, first use and reuse, in all three flavours; the endpoint's independent decoding must equal the caller's request; illegal heads must give LocalProtocolError with no byte of the request written.",
                note="Trusts the harness HTTP/1.1 parser and the h2 library in the server role; cookie field reordering/splitting on HTTP/2 is accepted (RFC 9113 8.2.3)."),
    "C17": dict(category="exploration", design_ref="DESIGN §4 C17",
                technique="runtime monitoring: byte-conservation oracle on the upgraded network stream over every cut position x max_bytes sequences",
                text="For 101 and CONNECT 2xx responses with 0..300 bytes after the head, every single cut position of head+data and several max_bytes sequences are executed; the bytes read from extensions['network_stream'] must equal what the endpoint sent, then live echo data, writes must pass through, and the connection must not be reused; the tunnel proxy's CONNECT reply is cut at every position too.",
                note="No bytes trail the proxy's own CONNECT reply before TLS (a TLS server never speaks first)."),
    "C19": dict(category="exploration", design_ref="DESIGN §4 C19",
                technique="runtime monitoring with a reference model: RFC 3986 appendix-B splitter beside httpcore.URL/Origin/Request on generated inputs, laws asserted per sample",
                text="20k (quick) / 2M (thorough) generated URLs as str and bytes plus explicit components, header lists and content kinds; parse result, origin equality, bytes round-trip, ASCII enforcement, Host synthesis and default framing headers are compared with the model.",
                note="Reference splitter is the RFC 3986 appendix B regular expression; generator emits only syntactically valid absolute URLs."),
    "C20": dict(category="fault_enumeration", design_ref="DESIGN §4 C20",
                technique="runtime monitoring: exhaustive enumeration of establishment outcome histories against an executable retry model, observing connect/start_tls/sleep calls on the simulated back-end",
                text="All histories of retryable failures (TCP/TLS ConnectError/ConnectTimeout) followed by every terminal outcome for N in 0..4, TCP and Unix sockets, http and https, all three flavours; observed call sequence, delays and final outcome must equal the model's; successful histories get a post-establishment fault that must not be retried.",
                note="Complete for the stated finite space; back-end behaviour is scripted at the NetworkBackend interface."),
}
CHECKS.update({
    "C05": dict(category="fault_enumeration", design_ref="DESIGN §4 C05",
                technique="runtime monitoring with single-fault / single-cancellation injection: every simulated network operation x documented fault kind and every real suspension point x {scope-before, scope-after, native task} cancellation, judged at quiescence by pool-state oracles and a public-API capacity probe",
                text="For 13 connection types x 3 request shapes x up to 5 contexts x 3 flavours a baseline run counts network operations and suspension points of the real coroutine (Stepper); each is then re-run with exactly one injection. After every run: repr(pool) counts no request, no pooled connection is neither idle nor closed nor expired, and max_connections fresh requests all obtain a connection. Quick samples long yield ranges and non-core combinations; thorough enumerates all.",
                note="Injections only at real operations/yields; simulated back-end mirrors the real back-ends' checkpoint discipline; sync flavour has fault injection only (no cancellation exists there)."),
    "C06": dict(category="fault_enumeration", design_ref="DESIGN §4 C06",
                technique="runtime monitoring (leak-sanitizer analogue): stream ledger conservation over the same single-injection enumeration as C05, ownership decided by gc reachability from pool.connections; plus 'window' histories (server hang-up / keep-alive expiry between the pool's poll and activation) and a real-socket part (ResourceWarning and /proc/self/fd ledger over the three real back-ends)",
                text="After every single-injection run, every open simulated transport must be reachable from a pooled connection (else it is an orphan) and after pool close none may be open; each pooled connection owns at most one open transport. Real back-ends: no socket may be left to its finaliser and no fd may survive pool close for 13 loopback server behaviours incl. failed, timed-out and cancelled TLS handshakes.",
                note="A stream counts as closed when close()/aclose() was called; start_tls closes on failure but not on cancellation (as the real back-ends)."),
})
CHECKS.update({
    "C14": dict(category="fault_enumeration", design_ref="DESIGN §4 C14",
                technique="runtime monitoring: per-call token counting over all simulated transports under every fault position and a GOAWAY matrix (exactly-once / at-most-once oracle over the recorded ledger)",
                text="Part A injects every documented fault at every network operation for direct HTTP/1.1, TLS, HTTP/2 (ALPN and prior knowledge) and forward-proxy connections, 1 and 3 concurrent callers, retries 0 and 2: heads per call <= 1 and, once request bytes had started, the call fails and neither reconnects nor reappears elsewhere. Part B sends GOAWAY at head/end of each of 3 concurrent requests with last-stream-id 0/previous/this/all: refused streams are re-sent at most once with the right body, no stream opens after GOAWAY reached the client, nobody hangs.",
                note="Bytes attributed by a contextvar per caller; HTTP/2 heads by decoded token; graceful GOAWAY is written raw so the h2 server role keeps serving lower streams."),
    "C16": dict(category="exploration", design_ref="DESIGN §4 C16",
                technique="runtime monitoring: timeout ledger (argument of every simulated connect/start_tls/read/write) plus virtual-clock PoolTimeout instants on asyncio, trio and scheduler-controlled threads",
                text="O1: for 13 connection types x 3 shapes x first use/reuse x 6 timeout configurations every recorded operation must carry the configured value for its kind (SOCKS negotiation: a configured value, never None when all are set). O2: holder/waiter histories with exact virtual release times and pool timeouts: PoolTimeout at exactly t0+P, success if a slot frees earlier, nothing left counted.",
                note="Virtual clock shared by loop/scheduler and httpcore's time.monotonic; thread runs use seeded random schedules."),
})
CHECKS.update({
    "C01": dict(category="exploration", design_ref="DESIGN §4 C01",
                technique="runtime monitoring of concurrent echo workloads: client-boundary echo oracle (unique token per request) + wire-order oracle inside the HTTP/1.1 endpoint (no request before the previous exchange is consumed; none after close semantics)",
                text="Thousands of seeded concurrent workloads (2-6 callers, mixed caller and server behaviours, faults, cancellations, latencies; asyncio and trio with seeded scheduling) run against the real pool; every response a caller receives must equal what the origin recorded for that caller's token and no transport may carry a new request before the previous exchange finished or after it declared close.",
                note="Endpoints send exactly one well-framed response per request; asyncio FIFO order is not perturbed (only legal nondeterminism: latencies, think times, trio's shuffle)."),
    "C04": dict(category="exploration", design_ref="DESIGN §4 C04",
                technique="runtime monitoring: connection-limit invariant evaluated after every ledger event of concurrent workloads, with stream ownership decided by gc reachability (pooled / evicted-closing / establishing)",
                text="Workloads with N in {1,2,3,5}, 2N-4N callers over N+2 origins (constant eviction). After every simulated network event: len(pool.connections) <= N, a pooled connection owns <= 1 open stream, establishing streams fit into pooled connections that own none, owned+establishing <= N; only streams of already-evicted connections are excused, and those must be closed by the end.",
                note="Ownership by reachability through httpcore objects; evaluated on asyncio and trio."),
    "C07": dict(category="exploration", design_ref="DESIGN §4 C07",
                technique="runtime monitoring: quiescence oracle at every instant the event loop / trio scheduler has nothing runnable (no serviceable waiter may exist) + virtual-time watchdog and spin counter for bounded progress",
                text="Liveness restated as two decidable things: O1 whenever nothing is runnable and requests are queued, the pool is at its limit, holds no idle connection and no connection able to take a queued request; O2 every caller terminates before a 1e5 s virtual watchdog and the loop never spins 1e6 iterations without virtual time advancing.",
                note="Unbounded 'eventually' is out of reach of any finite run; queued origins are read from pool._requests (anchored state)."),
})
CHECKS.update({
    "C09": dict(category="exploration", design_ref="DESIGN §4 C09",
                technique="runtime monitoring with a reference model: sequential request/hold/release/clock-advance/server-close histories on the virtual clock, judged by rules R1 reuse, R2 idle bound, R3 no dead connection handed out, R4 every idle close has a reason",
                text="Seeded histories over 1-4 origins and all combinations of max_connections, max_keepalive_connections (incl. 0/None) and keepalive_expiry (incl. 0/None), HTTP/1.1 and HTTP/2, three flavours; the model tracks idle-since / server-closed per transport and the pool's membership is observed by reachability.",
                note="Latencies are zero and the clock only moves in explicit steps; the boundary instant now = idle-since + expiry accepts either answer; which idle connection is closed is not prescribed, only how many."),
    "C10": dict(category="exploration", design_ref="DESIGN §4 C10",
                technique="runtime monitoring: ledger oracle over the full configuration matrix (arguments of connect_tcp/start_tls, CONNECT/SOCKS targets, the layer on which each token reached its endpoint) plus near-miss origin sequences",
                text="All 3240 combinations of scheme x port form x proxy kind x http1/http2 switches x server ALPN x sni_hostname, each with a reuse request, and seeded sequences over origins differing in exactly one component: endpoint reached, TLS iff https/wss, SNI, ALPN offer, HTTP/2 only when negotiated or forced, and no transport shared by two origins.",
                note="Endpoints accept plaintext or TLS on any port and record which they got; ALPN offer read from a recording SSLContext."),
    "C11": dict(category="exploration", design_ref="DESIGN §4 C11",
                technique="runtime monitoring: wire oracle inside the simulated HTTP proxy (forward/CONNECT) and SOCKS5 proxy with marker strings in caller data, proxy headers and credentials; refusal oracle (ProxyError and zero further bytes)",
                text="Seeded cases over proxy kinds, credentials, colliding proxy/request headers, origins, bodies and every proxy reply class (CONNECT statuses incl. 2xx boundaries, SOCKS reply codes 0-9/255, method and auth refusals), through both the Proxy object and the legacy proxy classes: forwarded head = proxy headers merged beneath the caller's, CONNECT names exactly host:port and carries no caller data, nothing of the proxy hop appears inside the tunnel, SOCKS offers exactly the configured method and names exactly the origin, any refusal gives ProxyError with nothing further written.",
                note="Harness SOCKS5 endpoint parses RFC 1928/1929 by hand; CONNECT 1xx-only replies are not generated (a proxy must eventually answer)."),
})
CHECKS.update({
    "C12": dict(category="exploration", design_ref="DESIGN §4 C12",
                technique="runtime monitoring: scripted h2 server role + independent frame ledger (own frame-header parser, open-stream accounting at every stream-opening HEADERS), per-stream echo oracle, virtual-time watchdog",
                text="Seeded single-connection workloads of 1-12 concurrent requests against a server script that chooses MAX_CONCURRENT_STREAMS (absent/1/2/3/100/200), delays its SETTINGS, holds and reorders/interleaves responses, resets streams, changes SETTINGS up/down/below in-flight, pings, and cuts frames into 7-byte or random reads; callers read, stall or abandon. Open streams <= limit in force at every stream opening, every response matches its own stream, no request fails unless its stream was reset, nobody wedges.",
                note="Most permissive of old/new limit until the SETTINGS ACK; no faults/cancellations injected here. Scripted SETTINGS changes are sent once earlier ones are acknowledged (the h2 server role applies pending changes on any ACK)."),
    "C13": dict(category="exploration", design_ref="DESIGN §4 C13",
                technique="runtime monitoring: independent flow-control window ledger (connection + per stream) beside the h2 server role, byte-conservation of uploads/downloads, bounded progress in virtual time as the starvation oracle",
                text="Uploads of 0..1M (5M thorough) bytes in several chunkings against server INITIAL_WINDOW_SIZE 1..1M, MAX_FRAME_SIZE 16384..2^24-1 and seven WINDOW_UPDATE policies, 1-3 uploads sharing the connection window; downloads up to 17 MiB (40 MiB thorough) beyond the client's 16 MiB credit. No window may go negative, no frame exceed the limit, all bytes arrive in order, every transfer finishes.",
                note="Windows use the most permissive of old/new settings until ACK; transfers bounded to <= 6000 DATA frames each."),
})
CHECKS.update({
    "C08": dict(category="exploration", design_ref="DESIGN §4 C08 / §3.5",
                technique="runtime monitoring under a controlled thread scheduler (race-detector analogue): real threads serialised by a baton, pre-empted at every sys.monitoring LINE event in httpcore/_sync and _synchronization, every shim lock/event/semaphore operation and every simulated network operation; seeded random and PCT schedules; deadlock = no enabled thread and no virtual deadline",
                text="2-4 threads share one ConnectionPool in three families (no eviction possible; small limits / keep-alive / expiry; one shared HTTP/2 connection). Per schedule: every request to the well-behaved endpoints must succeed, echo equality, connection-limit invariant after every ledger event, no deadlock, no internal error, nothing left counted. Quick explores ~2k schedules / ~8M yield points.",
                note="Shim primitives model threading semantics; library code (h11/h2) runs atomically, which under-approximates CPython: races can be missed, not invented. Known finding: shared HTTP/2 connection under threads."),
    "C15": dict(category="exploration", design_ref="DESIGN §4 C15",
                technique="runtime monitoring with hostile inputs: structure-aware mutation and random bytes at every peer stage (HTTP/1.1, HTTP/2 frames incl. 32 hand-built illegal frames, SOCKS5, CONNECT), every back-end fault at every operation, invalid caller requests and concurrent workloads; exception classifier + virtual-time no-hang oracle",
                text="Whatever escapes pool.request()/body iteration/close must be a documented httpcore exception of the class matching the cause (malformed peer data => RemoteProtocolError / ProxyError, injected X => X, invalid request => LocalProtocolError), and no call may hang once the peer's input has ended.",
                note="Peer always ends its input 0.5 virtual seconds after its last byte; documented set from docs/exceptions.md. The exception maps of the real anyio / trio / sync back-ends are exercised by a small real-socket part (13 loopback server behaviours x 3 back-ends), not enumerated."),
})
CHECKS.update({
    "C18": dict(category="translation_validation", design_ref="DESIGN §4 C18",
                technique="differential runtime monitoring: every corpus program executed through the async classes (asyncio, trio) and the sync classes on the same simulated network script; boundary traces, outcomes, state reprs and sys.monitoring executed-line sets of each _async/x.py vs _sync/x.py compared (auxiliary static step: byte comparison with a fresh scripts/unasync.py translation)",
                text="412 (quick) / ~4k (thorough) single-caller programs drawn from the generators of C02, C05, C09, C11, C15 and C17 run on all three flavours; any difference in the ordered simnet event trace (arguments, timeouts, bytes written, virtual time), in the outcome, in repr(pool)/connection info or in the executed-line sets is a violation. The evidence reports statement coverage of each async module; unexecuted lines are not covered by the runtime verdict. The second sentence of the property (text equality with the translation) is a statement about source text: it is checked by regenerating _sync with the repository's own translator and comparing bytes, reported separately as auxiliary.",
                note="Only the 'Async' class prefix and a-prefixed method names may differ in messages/reprs; executed-line equality relies on the translator being line-preserving."),
})
NOT_YET = {}

# what the fourth session (round 16 of independently written breaks) added to each check
ADDENDA = {
    "C01": "Also: servers that follow a complete keep-alive response with an unsolicited second one; callers whose trace callback awaits; a reader-cancel sweep in which a SETTINGS change arrives in the same read as a sibling's response.",
    "C03": "Also: HTTP/2 sequences in which the server refuses the second request of each connection by GOAWAY, so that it is transmitted twice - both transmissions are decoded and compared.",
    "C05": "Also: a one-stream HTTP/2 server type (a lost stream slot wedges the next request at once), unix-socket types, contexts in which a companion shares the victim's HTTP/2 connection while the victim's trace callback awaits, and an injection kind 'the victim's own trace callback raises at its n-th event'.",
    "C06": "Same additions as C05 (one-stream HTTP/2 server, unix-socket types, awaiting / raising trace callbacks).",
    "C07": "Also: servers that lower MAX_CONCURRENT_STREAMS below what is in flight while requests wait for a slot; uploads that the server answers early (413, optionally RST_STREAM(NO_ERROR)) while they are blocked on flow control; awaiting trace callbacks.",
    "C09": "Also: HTTP/2 servers that follow every response with a PING / connection credit a little later (a readable idle socket says nothing about the health of an HTTP/2 connection).",
    "C12": "Also: 'ping-gate' servers (a PING, and nothing more until it is acknowledged) and callers whose trace callback awaits between the steps of opening a stream.",
    "C13": "Also: hundreds of responses given up unread or after one chunk on one connection (the connection-level credit of DATA nobody reads), followed by complete downloads.",
    "C14": "Also: part A on kept-alive connections (the faulted call is the second on its connection) and part D 'a refusal is transparent': one caller, the GOAWAY is the last thing the server says, the call must succeed by exactly one re-send (known finding: last-stream-id 0).",
    "C16": "Also: unix-socket connection types (connect_unix_socket must carry the connect timeout).",
    "C17": "Also: payload kinds after the head - leading CR/LF, blanks, NULs, bytes that look like another response head.",
    "C18": "Also: fault programs in which the caller's trace callback raises (at its n-th '.started'/'.complete' event, or at the first '.failed' event after an injected fault).",
    "C19": "Also: port 0.",
    "C20": "Also: every other history runs with a trace callback on the request, every third with socket options / a local address.",
}
for _k, _v in ADDENDA.items():
    CHECKS[_k]["text"] += " " + _v

# rounds 17 and 18 (same session)
ADDENDA2 = {
    "C01": "Servers that send interim responses (102, 104, 199 ...) before the final one.",
    "C03": "URLs with no path but a query.",
    "C05": "A careless-caller shape on a kept-alive connection (body shorter than its Content-Length); a double injection 'the trace callback raises, then a task cancellation inside the clean-up'; a companion that joins a connection whose initialising request has an awaiting trace callback (a LocalProtocolError for the companion is never 'shared fate').",
    "C06": "The synchronous simulated stream moves the descriptor into the stream start_tls() returns (closing the pre-TLS object afterwards closes nothing), as ssl.wrap_socket() does.",
    "C08": "Family F5: one more thread closes the pool while the others use it (no internal error, no deadlock, nothing left counted; what the requests end with is open).",
    "C11": "Origin hosts with a trailing dot and IPv4-looking names.",
    "C12": "Exact conservation of connection-level credit at the end of every workload, read off the client's h2 window manager.",
    "C13": "Credit conservation after hundreds of responses given up (server-side bound and the exact client-side reading).",
    "C14": "RST_STREAM (four error codes) for one of three concurrent requests after the whole request has arrived and before any response header: it fails, once on the wire.",
    "C15": "Unsupported URL schemes (UnsupportedProtocol before anything touches the network, also through proxies); a request Content-Length of 5000 digits; HTTP/2 servers that run unusual MAX_CONCURRENT_STREAMS programs.",
    "C16": "A request that is turned away and queued again more than once ('bounced-twice').",
    "C17": "Switching responses whose head carries a Content-Length.",
    "C18": "Trace callbacks as callable objects and functools.partial.",
    "C19": "Law: the caller's own header list is unchanged by Request(...) + default headers.",
    "C20": "Connect timeouts shorter than the later pauses of the schedule.",
}
for _k, _v in ADDENDA2.items():
    CHECKS[_k]["text"] += " " + _v
