"""Per-property registry: what is claimed, at which level, with which technique."""
CHECKS = {
    "C02": dict(category="exploration", design_ref="DESIGN §4 C02",
                technique="runtime monitoring: ground-truth equality oracle on responses over generated framings x read segmentations x truncation points (simulated network, real httpcore)",
                text="Every generated well-formed response (HTTP/1.1 framings, HTTP/2 DATA layouts) is delivered through the real client under all-at-once, 1-byte, random and every-single-cut segmentations and compared byte for byte with what the harness endpoint serialised; every truncation point of small wires must raise or deliver the complete response. Exploration, not proof: held on the executions counted in the evidence.",
                note="Trusts the harness serialiser/endpoints (own code, no h11) and the simulated NetworkBackend; close-delimited bodies excluded from the truncation oracle."),
    "C03": dict(category="exploration", design_ref="DESIGN §4 C03",
                technique="runtime monitoring: wire bytes decoded by an independent HTTP/1.1 parser / h2 server role and compared with the caller's request per transmission attempt",
                text="Generated requests (methods, targets incl. 'target' extension, header lists, bytes/iterator bodies) are sent through the real pool on HTTP/1.1 and HTTP/2, first use and reuse, in all three flavours; the endpoint's independent decoding must equal the caller's request; illegal heads must give LocalProtocolError with no byte of the request written.",
                note="Trusts the harness HTTP/1.1 parser and the h2 library in the server role; cookie field reordering/splitting on HTTP/2 is accepted (RFC 9113 8.2.3)."),
    "C17": dict(category="exploration", design_ref="DESIGN §4 C17",
                technique="runtime monitoring: byte-conservation oracle on the upgraded network stream over every cut position x max_bytes sequences",
                text="For 101 and CONNECT 2xx responses with 0..300 bytes after the head, every single cut position of head+data and several max_bytes sequences are executed; the bytes read from extensions['network_stream'] must equal what the endpoint sent, then live echo data, writes must pass through, and the connection must not be reused; the tunnel proxy's CONNECT reply is cut at every position too.",
                note="No bytes trail the proxy's own CONNECT reply before TLS (a TLS server never speaks first)."),
    "C19": dict(category="exploration", design_ref="DESIGN §4 C19",
                technique="runtime monitoring with a reference model: RFC 3986 appendix-B splitter beside httpcore.URL/Origin/Request on generated inputs, laws asserted per sample",
                text="20k (quick) / 2M (thorough) generated URLs as str and bytes plus explicit components, header lists and content kinds; parse result, origin equality, bytes round-trip, ASCII enforcement, Host synthesis and default framing headers are compared with the model.",
                note="Reference splitter is the RFC 3986 appendix B regular expression; generator emits only syntactically valid absolute URLs."),
    "C20": dict(category="fault_enumeration", design_ref="DESIGN §4 C20",
                technique="runtime monitoring: exhaustive enumeration of establishment outcome histories against an executable retry model, observing connect/start_tls/sleep calls on the simulated back-end",
                text="All histories of retryable failures (TCP/TLS ConnectError/ConnectTimeout) followed by every terminal outcome for N in 0..4, TCP and Unix sockets, http and https, all three flavours; observed call sequence, delays and final outcome must equal the model's; successful histories get a post-establishment fault that must not be retried.",
                note="Complete for the stated finite space; back-end behaviour is scripted at the NetworkBackend interface."),
}
CHECKS.update({
    "C05": dict(category="fault_enumeration", design_ref="DESIGN §4 C05",
                technique="runtime monitoring with single-fault / single-cancellation injection: every simulated network operation x documented fault kind and every real suspension point x {scope-before, scope-after, native task} cancellation, judged at quiescence by pool-state oracles and a public-API capacity probe",
                text="For 13 connection types x 3 request shapes x up to 5 contexts x 3 flavours a baseline run counts network operations and suspension points of the real coroutine (Stepper); each is then re-run with exactly one injection. After every run: repr(pool) counts no request, no pooled connection is neither idle nor closed nor expired, and max_connections fresh requests all obtain a connection. Quick samples long yield ranges and non-core combinations; thorough enumerates all.",
                note="Injections only at real operations/yields; simulated back-end mirrors the real back-ends' checkpoint discipline; sync flavour has fault injection only (no cancellation exists there)."),
    "C06": dict(category="fault_enumeration", design_ref="DESIGN §4 C06",
                technique="runtime monitoring (leak-sanitizer analogue): stream ledger conservation over the same single-injection enumeration as C05, ownership decided by gc reachability from pool.connections",
                text="After every single-injection run, every open simulated transport must be reachable from a pooled connection (else it is an orphan) and after pool close none may be open; each pooled connection owns at most one open transport.",
                note="A stream counts as closed when close()/aclose() was called; start_tls closes on failure but not on cancellation (as the real back-ends)."),
})
CHECKS.update({
    "C14": dict(category="fault_enumeration", design_ref="DESIGN §4 C14",
                technique="runtime monitoring: per-call token counting over all simulated transports under every fault position and a GOAWAY matrix (exactly-once / at-most-once oracle over the recorded ledger)",
                text="Part A injects every documented fault at every network operation for direct HTTP/1.1, TLS, HTTP/2 (ALPN and prior knowledge) and forward-proxy connections, 1 and 3 concurrent callers, retries 0 and 2: heads per call <= 1 and, once request bytes had started, the call fails and neither reconnects nor reappears elsewhere. Part B sends GOAWAY at head/end of each of 3 concurrent requests with last-stream-id 0/previous/this/all: refused streams are re-sent at most once with the right body, no stream opens after GOAWAY reached the client, nobody hangs.",
                note="Bytes attributed by a contextvar per caller; HTTP/2 heads by decoded token; graceful GOAWAY is written raw so the h2 server role keeps serving lower streams."),
    "C16": dict(category="exploration", design_ref="DESIGN §4 C16",
                technique="runtime monitoring: timeout ledger (argument of every simulated connect/start_tls/read/write) plus virtual-clock PoolTimeout instants on asyncio, trio and scheduler-controlled threads",
                text="O1: for 13 connection types x 3 shapes x first use/reuse x 6 timeout configurations every recorded operation must carry the configured value for its kind (SOCKS negotiation: a configured value, never None when all are set). O2: holder/waiter histories with exact virtual release times and pool timeouts: PoolTimeout at exactly t0+P, success if a slot frees earlier, nothing left counted.",
                note="Virtual clock shared by loop/scheduler and httpcore's time.monotonic; thread runs use seeded random schedules."),
})
NOT_YET = {}
