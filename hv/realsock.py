"""Real-socket tier (DESIGN §3.8): the three real back-ends (SyncBackend, AnyIOBackend on asyncio,
TrioBackend) against loopback servers run by the harness. Monitors: the exception class reaching
the caller (C15) and an fd ledger from /proc/self/fd (C06). Real time is only used to provoke
timeouts; it is never a verdict - a provocation that did not happen is inconclusive for that case."""
from __future__ import annotations

import gc
import os
import socket
import ssl
import struct
import threading
import time

from . import REPO  # noqa: F401
import httpcore

CERT_DIR = None
for _p in __import__("sys").path:
    _c = os.path.join(_p, "pytest_httpbin", "certs")
    if os.path.isdir(_c):
        CERT_DIR = _c
        break

BEHAVIOURS = ["plain-ok", "upload-digest", "uds-ok", "uds-refuse", "via-http-proxy-tls-ok", "via-https-proxy-tls-ok",
              "via-socks-tls-ok", "bad-socket-option", "uds-bad-socket-option", "badtype-socket-option", "refuse", "accept-close", "accept-rst", "stall", "partial-then-close", "close-during-upload",
              "tls-ok", "tls-garbage", "tls-untrusted", "tls-close-in-handshake", "tls-eof-in-handshake", "tls-stall-timeout",
              "tls-stall-cancel"]

OK_RESPONSE = b"HTTP/1.1 200 OK\r\nContent-Length: 5\r\n\r\nhello"


class Server:
    """One loopback listener with a scripted behaviour; serves connections on daemon threads."""

    def __init__(self, behaviour: str) -> None:
        self.uds_path = None
        if behaviour.startswith("uds-"):
            import tempfile
            self.uds_dir = tempfile.mkdtemp(prefix="hvuds_")
            self.uds_path = os.path.join(self.uds_dir, "s")
            self.behaviour = "plain-ok"
            self.port = 0
            self.accepted = 0
            self.stop = False
            self.conns = []
            self.sock = socket.socket(socket.AF_UNIX, socket.SOCK_STREAM)
            if behaviour == "uds-refuse":
                self.sock.close()
                return
            self.sock.bind(self.uds_path)
            self.sock.listen(8)
            self.sock.settimeout(0.2)
            self.thread = threading.Thread(target=self._loop, daemon=True)
            self.thread.start()
            return
        if behaviour.startswith("via-"):
            behaviour = "tls-ok"
        if behaviour in ("bad-socket-option", "badtype-socket-option"):
            behaviour = "plain-ok"
        self.behaviour = behaviour
        self.sock = socket.socket(socket.AF_INET, socket.SOCK_STREAM)
        self.sock.setsockopt(socket.SOL_SOCKET, socket.SO_REUSEADDR, 1)
        self.sock.bind(("127.0.0.1", 0))
        self.port = self.sock.getsockname()[1]
        self.accepted = 0
        self.stop = False
        self.conns: list = []
        if behaviour == "refuse":
            self.sock.close()
            return
        self.sock.listen(8)
        self.sock.settimeout(0.2)
        self.thread = threading.Thread(target=self._loop, daemon=True)
        self.thread.start()

    def _loop(self) -> None:
        while not self.stop:
            try:
                c, _ = self.sock.accept()
            except (socket.timeout, OSError):
                continue
            self.accepted += 1
            self.conns.append(c)
            threading.Thread(target=self._serve, args=(c,), daemon=True).start()

    def _tls_ctx(self):
        ctx = ssl.SSLContext(ssl.PROTOCOL_TLS_SERVER)
        ctx.load_cert_chain(os.path.join(CERT_DIR, "cert.pem"), os.path.join(CERT_DIR, "key.pem"))
        return ctx

    def _read_head(self, c) -> bytes:
        buf = b""
        c.settimeout(3)
        try:
            while b"\r\n\r\n" not in buf:
                d = c.recv(65536)
                if not d:
                    break
                buf += d
        except OSError:
            pass
        return buf

    def _serve(self, c) -> None:
        b = self.behaviour
        try:
            if b == "accept-close":
                c.close()
            elif b == "accept-rst":
                c.setsockopt(socket.SOL_SOCKET, socket.SO_LINGER, struct.pack("ii", 1, 0))
                time.sleep(0.05)
                c.close()
            elif b == "stall":
                self._read_head(c)
                while not self.stop:
                    time.sleep(0.05)
                c.close()
            elif b == "plain-ok":
                while True:
                    if not self._read_head(c):
                        break
                    c.sendall(OK_RESPONSE)
                c.close()
            elif b == "upload-digest":
                # slow to start reading, so that the client's send buffer fills up and its writes are partial ones;
                # answers with the digest of the body it received
                import hashlib
                time.sleep(0.3)
                head = b""
                c.settimeout(10)
                while b"\r\n\r\n" not in head:
                    d = c.recv(65536)
                    if not d:
                        break
                    head += d
                head, _, rest = head.partition(b"\r\n\r\n")
                n = 0
                for line in head.split(b"\r\n"):
                    if line.lower().startswith(b"content-length:"):
                        n = int(line.split(b":")[1])
                h = hashlib.sha256(rest)
                got = len(rest)
                while got < n:
                    d = c.recv(min(1 << 20, n - got))
                    if not d:
                        break
                    h.update(d)
                    got += len(d)
                body = (h.hexdigest() + ":%d" % got).encode()
                c.sendall(b"HTTP/1.1 200 OK\r\nContent-Length: %d\r\n\r\n" % len(body) + body)
                c.close()
            elif b == "partial-then-close":
                self._read_head(c)
                c.sendall(b"HTTP/1.1 200 OK\r\nContent-Length: 50\r\n\r\nonly-part")
                c.close()
            elif b == "close-during-upload":
                c.recv(1000)
                c.setsockopt(socket.SOL_SOCKET, socket.SO_LINGER, struct.pack("ii", 1, 0))
                c.close()
            elif b == "tls-garbage":
                c.recv(100)
                c.sendall(b"HTTP/1.1 400 Bad Request\r\n\r\nthis is not a ServerHello at all, sorry")
                time.sleep(0.1)
                c.close()
            elif b == "tls-close-in-handshake":
                c.recv(100)
                c.close()
            elif b == "tls-eof-in-handshake":
                # consume the whole ClientHello, then end the stream cleanly (FIN, not RST): an EOF inside the handshake
                c.settimeout(0.15)
                try:
                    while c.recv(65536):
                        pass
                except OSError:
                    pass
                try:
                    c.shutdown(socket.SHUT_WR)
                except OSError:
                    pass
                time.sleep(0.2)
                c.close()
            elif b in ("tls-stall-timeout", "tls-stall-cancel"):
                c.recv(100)
                while not self.stop:
                    time.sleep(0.05)
                c.close()
            elif b in ("tls-ok", "tls-untrusted"):
                try:
                    t = self._tls_ctx().wrap_socket(c, server_side=True)
                except (ssl.SSLError, OSError):
                    c.close()
                    return
                self.conns.append(t)
                if self._read_head(t):
                    t.sendall(OK_RESPONSE)
                try:
                    t.shutdown(socket.SHUT_RDWR)
                except OSError:
                    pass
                t.close()
        except OSError:
            try:
                c.close()
            except OSError:
                pass

    def close(self) -> None:
        self.stop = True
        try:
            self.sock.close()
        except OSError:
            pass
        if self.uds_path is not None:
            import shutil
            shutil.rmtree(self.uds_dir, ignore_errors=True)
        for c in self.conns:
            try:
                c.close()
            except OSError:
                pass


class UploadCorrupted(Exception):
    """The bytes that the server received are not the bytes of the request body."""


def fds() -> set:
    out = set()
    for name in os.listdir("/proc/self/fd"):
        try:
            out.add((name, os.readlink(f"/proc/self/fd/{name}")))
        except OSError:
            pass
    return {x for x in out if x[1].startswith("socket:")}


def client_ctx(behaviour: str):
    ctx = ssl.create_default_context()
    if behaviour != "tls-untrusted":
        ctx.load_verify_locations(os.path.join(CERT_DIR, "cacert.pem"))
    return ctx


def url_for(behaviour: str, port: int) -> str:
    tls = behaviour.startswith("tls-") or behaviour.startswith("via-")
    return f"{'https' if tls else 'http'}://localhost:{port}/"


TIMEOUTS = {"connect": 2.0, "read": 0.4, "write": 1.0, "pool": 2.0}

# what the caller may see (documented classes matching the cause); None = must succeed
EXPECT = {
    "plain-ok": None,
    "upload-digest": None,
    "uds-ok": None,
    "uds-refuse": (httpcore.ConnectError,),
    "bad-socket-option": (httpcore.ConnectError,),
    "uds-bad-socket-option": (httpcore.ConnectError,),
    "badtype-socket-option": "caller-error",   # (a TypeError / OverflowError of setsockopt itself: only the fd ledger judges)
    "via-http-proxy-tls-ok": None,
    "via-https-proxy-tls-ok": None,
    "via-socks-tls-ok": None,
    "tls-ok": None,
    "refuse": (httpcore.ConnectError,),
    "accept-close": (httpcore.RemoteProtocolError, httpcore.ReadError, httpcore.WriteError),
    "accept-rst": (httpcore.ReadError, httpcore.WriteError, httpcore.RemoteProtocolError),
    "stall": (httpcore.ReadTimeout,),
    "partial-then-close": (httpcore.RemoteProtocolError, httpcore.ReadError),
    "close-during-upload": (httpcore.WriteError, httpcore.ReadError, httpcore.RemoteProtocolError),
    "tls-garbage": (httpcore.ConnectError,),
    "tls-untrusted": (httpcore.ConnectError,),
    "tls-close-in-handshake": (httpcore.ConnectError,),
    "tls-eof-in-handshake": (httpcore.ConnectError,),
    "tls-stall-timeout": (httpcore.ConnectTimeout,),
    "tls-stall-cancel": "cancelled",
}


def run_one(backend: str, behaviour: str):
    """Returns dict(outcome, exc, fd_leak, accepted)."""
    srv = Server(behaviour)
    url = url_for(behaviour, srv.port)
    tls = behaviour.startswith("tls-") or behaviour.startswith("via-")
    pool_kw = {}
    relay = None
    if srv.uds_path is not None:
        pool_kw["uds"] = srv.uds_path
    if behaviour.endswith("bad-socket-option"):
        # the connection is made, then setting the caller's (invalid) socket option fails
        pool_kw["socket_options"] = [(socket.SOL_SOCKET, 0x7FFF, 1)]
    if behaviour == "badtype-socket-option":
        # ... or is rejected by setsockopt() itself, before the kernel sees it (not an OSError)
        pool_kw["socket_options"] = [(socket.SOL_SOCKET, socket.SO_SNDBUF, 2 ** 40)]
    if behaviour.startswith("via-"):
        kind = behaviour.split("-")[1]
        relay = _Relay("socks" if kind == "socks" else "http", tls=kind == "https")
        scheme = {"http": "http", "https": "https", "socks": "socks5"}[kind]
        pool_kw["proxy"] = httpcore.Proxy(f"{scheme}://localhost:{relay.port}",
                                          ssl_context=client_ctx("tls-ok") if kind == "https" else None)
    body = b"u" * (4 * 1024 * 1024) if behaviour == "close-during-upload" else None
    digest = None
    if behaviour == "upload-digest":
        import hashlib
        blk = bytes(range(256)) * 4096                      # 1 MiB of non-repeating-at-small-offsets content
        body = b"".join(bytes([i]) + blk for i in range(12))  # ~12 MiB in one piece, larger than any socket buffer
        digest = (hashlib.sha256(body).hexdigest() + ":%d" % len(body)).encode()
    method = "POST" if body else "GET"
    gc.collect()
    before = fds()
    res = {"backend": backend, "behaviour": behaviour}
    import warnings
    rec_cm = warnings.catch_warnings(record=True)
    rec = rec_cm.__enter__()
    warnings.simplefilter("always", ResourceWarning)
    ext = {"timeout": dict(TIMEOUTS)}
    if behaviour == "tls-stall-timeout":
        ext["timeout"]["connect"] = 0.4
    if behaviour == "upload-digest":
        ext["timeout"].update(read=20.0, write=20.0)
    cancel = behaviour == "tls-stall-cancel"
    if cancel and backend == "sync":
        srv.close()
        return {"backend": backend, "behaviour": behaviour, "outcome": "n/a", "fd_leak": [], "accepted": 0}

    def finish(out):
        res.update(out)

    try:
        if backend == "sync":
            pool = httpcore.ConnectionPool(ssl_context=client_ctx(behaviour) if tls else None, **pool_kw)
            try:
                r = pool.request(method, url, content=body, extensions=ext)
                finish({"outcome": "ok", "status": r.status})
                if digest is not None and r.content != digest:
                    finish({"outcome": "exc", "exc": UploadCorrupted(f"server received {r.content!r}, sent {digest!r}")})
            except BaseException as exc:  # noqa
                finish({"outcome": "exc", "exc": exc})
            res["fd_before_close"] = len(fds() - before)
            pool.close()
        else:
            async def main():
                pool = httpcore.AsyncConnectionPool(ssl_context=client_ctx(behaviour) if tls else None, **pool_kw)
                try:
                    if cancel:
                        # the caller gives up while the TLS handshake is stalled (scope cancellation)
                        import anyio as _anyio
                        with _anyio.move_on_after(0.4) as scope:
                            r = await pool.request(method, url, content=body, extensions=ext)
                        finish({"outcome": "cancelled" if scope.cancelled_caught else "ok"})
                    else:
                        r = await pool.request(method, url, content=body, extensions=ext)
                        finish({"outcome": "ok", "status": r.status})
                        if digest is not None and r.content != digest:
                            finish({"outcome": "exc", "exc": UploadCorrupted(f"server received {r.content!r}, sent {digest!r}")})
                except BaseException as exc:  # noqa
                    finish({"outcome": "exc", "exc": exc})
                res["fd_before_close"] = len(fds() - before)
                await pool.aclose()
            if backend == "anyio":
                import anyio
                anyio.run(main)
            else:
                import trio
                trio.run(main)
    finally:
        gc.collect()
        after = fds()
        srv.close()
        if relay is not None:
            relay.close()
    # server-side sockets live in this process too: only count sockets that survive the server's close
    time.sleep(0.02)
    gc.collect()
    res["fd_leak"] = sorted(x[1] for x in (fds() - before))
    # a socket that the code never closed is closed by its finaliser, with a ResourceWarning: that is the leak
    # (the garbage collector hides it from the fd ledger)
    def _mine(msg: str) -> bool:
        if "unclosed transport" in msg:
            return True
        if srv.uds_path is not None:
            return "AF_UNIX" in msg
        return "127.0.0.1" in msg and f", {srv.port})" in msg.replace("raddr=", "")
    res["resource_warnings"] = sorted({str(w.message)[:120] for w in rec if issubclass(w.category, ResourceWarning)
                                       and _mine(str(w.message))})
    rec_cm.__exit__(None, None, None)
    res["accepted"] = srv.accepted
    return res


# ---------------------------------------------------------------------------------------------------------------
# timeout ledger of the real synchronous back-end (C16): which timeout is in force on the socket at each operation
# ---------------------------------------------------------------------------------------------------------------
LEDGER_TIMEOUTS = {"connect": 1.1, "read": 2.2, "write": 3.3, "pool": 4.4}


class _Relay:
    """A loopback CONNECT proxy ('http') or SOCKS5 proxy ('socks') that relays to 127.0.0.1:<port named by the client>."""

    def __init__(self, kind: str, tls: bool = False) -> None:
        self.kind = kind
        self.tls = tls
        self.sock = socket.socket(socket.AF_INET, socket.SOCK_STREAM)
        self.sock.setsockopt(socket.SOL_SOCKET, socket.SO_REUSEADDR, 1)
        self.sock.bind(("127.0.0.1", 0))
        self.port = self.sock.getsockname()[1]
        self.sock.listen(8)
        self.sock.settimeout(0.2)
        self.stop = False
        self.socks: list = []
        threading.Thread(target=self._loop, daemon=True).start()

    def _loop(self) -> None:
        while not self.stop:
            try:
                c, _ = self.sock.accept()
            except (socket.timeout, OSError):
                continue
            self.socks.append(c)
            threading.Thread(target=self._serve, args=(c,), daemon=True).start()

    def _recvn(self, c, n: int) -> bytes:
        buf = b""
        while len(buf) < n:
            d = c.recv(n - len(buf))
            if not d:
                raise OSError("eof")
            buf += d
        return buf

    def _serve(self, c) -> None:
        try:
            c.settimeout(3)
            if self.tls:
                ctx = ssl.SSLContext(ssl.PROTOCOL_TLS_SERVER)
                ctx.load_cert_chain(os.path.join(CERT_DIR, "cert.pem"), os.path.join(CERT_DIR, "key.pem"))
                c = ctx.wrap_socket(c, server_side=True)
                self.socks.append(c)
            if self.kind == "http":
                buf = b""
                while b"\r\n\r\n" not in buf:
                    d = c.recv(65536)
                    if not d:
                        return
                    buf += d
                target = buf.split(b" ", 2)[1].decode()
                port = int(target.rsplit(":", 1)[1])
            else:
                ver, n = self._recvn(c, 2)
                self._recvn(c, n)
                c.sendall(b"\x05\x00")
                ver, cmd, _, atyp = self._recvn(c, 4)
                if atyp == 3:
                    ln = self._recvn(c, 1)[0]
                    self._recvn(c, ln)
                elif atyp == 1:
                    self._recvn(c, 4)
                else:
                    self._recvn(c, 16)
                port = struct.unpack("!H", self._recvn(c, 2))[0]
            up = socket.create_connection(("127.0.0.1", port), 3)
            self.socks.append(up)
            if self.kind == "http":
                c.sendall(b"HTTP/1.1 200 Connection established\r\n\r\n")
            else:
                c.sendall(b"\x05\x00\x00\x01\x00\x00\x00\x00\x00\x00")

            def pump(a, b_):
                try:
                    a.settimeout(5)
                    while True:
                        d = a.recv(65536)
                        if not d:
                            break
                        b_.sendall(d)
                except OSError:
                    pass
                try:
                    b_.shutdown(socket.SHUT_WR)
                except OSError:
                    pass
            t = threading.Thread(target=pump, args=(up, c), daemon=True)
            t.start()
            pump(c, up)
            t.join(2)
        except (OSError, ValueError, IndexError):
            pass
        finally:
            try:
                c.close()
            except OSError:
                pass

    def close(self) -> None:
        self.stop = True
        for s_ in [self.sock] + self.socks:
            try:
                s_.close()
            except OSError:
                pass


SYNC_LEDGER_CONFIGS = {
    "distinct": dict(LEDGER_TIMEOUTS),
    # an absent value means unlimited: whatever an earlier operation left on the socket must not stay in force
    "no-connect": {"read": 2.2, "write": 3.3},
    "no-read": {"connect": 1.1, "write": 3.3},
    "no-write": {"connect": 1.1, "read": 2.2},
    "connect-only": {"connect": 1.1},
}


def sync_timeout_ledger(mode: str, cfg: str = "distinct") -> dict:
    """mode: direct-http | direct-https | tunnel-https | socks-https. Runs one request through the real
    SyncBackend with four distinct timeouts (or with some of them absent) and returns the list of (operation, timeout
    in force on the socket)."""
    import httpcore._backends.sync as sync_mod
    ledger: list = []
    real_socket = socket

    class RecSocket(socket.socket):
        def recv(self, *a, **k):
            ledger.append(("raw.recv", self.gettimeout()))
            return super().recv(*a, **k)

        def send(self, *a, **k):
            ledger.append(("raw.send", self.gettimeout()))
            return super().send(*a, **k)

        def sendall(self, *a, **k):
            ledger.append(("raw.send", self.gettimeout()))
            return super().sendall(*a, **k)

    class RecSSLSocket(ssl.SSLSocket):
        def do_handshake(self, *a, **k):
            ledger.append(("tls.handshake", self.gettimeout()))
            return super().do_handshake(*a, **k)

        def recv(self, *a, **k):
            ledger.append(("tls.recv", self.gettimeout()))
            return super().recv(*a, **k)

        def send(self, *a, **k):
            ledger.append(("tls.send", self.gettimeout()))
            return super().send(*a, **k)

        def sendall(self, *a, **k):
            ledger.append(("tls.send", self.gettimeout()))
            return super().sendall(*a, **k)

    class SocketShim:
        """Stands in for the `socket` module inside httpcore._backends.sync."""

        def __getattr__(self, name):
            return getattr(real_socket, name)

        def create_connection(self, address, timeout=None, source_address=None, **kw):
            ledger.append(("connect", timeout))
            s_ = real_socket.create_connection(address, timeout, source_address=source_address, **kw)
            t = s_.gettimeout()
            rs = RecSocket(s_.family, s_.type, s_.proto, fileno=s_.detach())
            rs.settimeout(t)
            return rs

    tls = mode.endswith("https")
    srv = Server("tls-ok" if tls else "plain-ok")
    relay = _Relay("http" if mode.startswith("tunnel") else "socks") if not mode.startswith("direct") else None
    ctx = None
    if tls:
        ctx = client_ctx("tls-ok")
        ctx.sslsocket_class = RecSSLSocket
    saved = sync_mod.socket
    sync_mod.socket = SocketShim()
    res = {"mode": mode, "ledger": ledger, "cfg": cfg}
    try:
        proxy = None
        if relay is not None:
            proxy = httpcore.Proxy(f"{'http' if relay.kind == 'http' else 'socks5'}://127.0.0.1:{relay.port}")
        pool = httpcore.ConnectionPool(ssl_context=ctx, proxy=proxy)
        try:
            r = pool.request("POST", f"{'https' if tls else 'http'}://localhost:{srv.port}/", content=b"x" * 2000,
                             extensions={"timeout": dict(SYNC_LEDGER_CONFIGS[cfg])})
            res["status"] = r.status
        except Exception as exc:  # noqa
            res["exc"] = exc
        finally:
            pool.close()
    finally:
        sync_mod.socket = saved
        srv.close()
        if relay is not None:
            relay.close()
    return res


def judge_timeout_ledger(res: dict) -> list:
    """Returns [(operation, timeout seen, timeout expected)] for every operation issued with the wrong timeout."""
    cfg_ = SYNC_LEDGER_CONFIGS[res.get("cfg", "distinct")]
    T = {k: cfg_.get(k) for k in ("connect", "read", "write")}
    socks = res["mode"].startswith("socks")
    bad = []
    seen_handshake = False
    for op, t in res["ledger"]:
        if op == "connect" or op == "tls.handshake":
            want = T["connect"]
            seen_handshake = seen_handshake or op == "tls.handshake"
        elif op == "raw.recv":
            # SOCKS negotiation is part of establishing the connection; a CONNECT exchange is an HTTP request of its own
            want = T["connect"] if socks else T["read"]
        elif op == "raw.send":
            want = T["connect"] if socks else T["write"]
        elif op == "tls.recv":
            want = T["read"]
        else:
            want = T["write"]
        if t != want:
            bad.append((op, t, want))
    return bad


# ---------------------------------------------------------------------------------------------------------------
# timeout ledger of the real asynchronous back-ends (C16): the deadline handed to anyio.fail_after / trio.fail_after
# ---------------------------------------------------------------------------------------------------------------
ASYNC_LEDGER_CONFIGS = {
    "distinct": {"connect": 1.1, "read": 2.2, "write": 3.3, "pool": 4.4},
    "absent": {},
    "read-zero": {"connect": 1.1, "read": 0, "write": 3.3},
    "write-zero": {"connect": 1.1, "read": 2.2, "write": 0},
    "connect-zero": {"connect": 0, "read": 2.2, "write": 3.3},
}
ASYNC_LEDGER_EXPECT = {"distinct": None, "absent": None, "read-zero": httpcore.ReadTimeout, "write-zero": httpcore.WriteTimeout,
                       "connect-zero": httpcore.ConnectTimeout}
_OP_KEY = {"read": "read", "write": "write", "connect_tcp": "connect", "connect_unix_socket": "connect", "start_tls": "connect"}


def async_timeout_ledger(backend: str, cfg_name: str, tls: bool) -> dict:
    """One request through the real AnyIOBackend (on asyncio) or TrioBackend over loopback; records (operation, deadline
    argument) of every fail_after() the back-end module enters."""
    import sys as _sys
    import anyio as _anyio
    import trio as _trio
    import httpcore._backends.anyio as am
    import httpcore._backends.trio as tm
    ledger: list = []

    class Shim:
        def __init__(self, real) -> None:
            self._real = real

        def __getattr__(self, name):
            return getattr(self._real, name)

        def fail_after(self, t, *a, **k):
            ledger.append((_sys._getframe(1).f_code.co_name, t))
            return self._real.fail_after(t, *a, **k)

    cfg = dict(ASYNC_LEDGER_CONFIGS[cfg_name])
    srv = Server("tls-ok" if tls else "plain-ok")
    res = {"backend": backend, "config": cfg_name, "tls": tls, "ledger": ledger, "timeouts": cfg}
    saved = (am.anyio, tm.trio)
    am.anyio, tm.trio = Shim(_anyio), Shim(_trio)
    try:
        async def main():
            be = httpcore.AnyIOBackend() if backend == "anyio" else httpcore.TrioBackend()
            pool = httpcore.AsyncConnectionPool(ssl_context=client_ctx("tls-ok") if tls else None, network_backend=be)
            try:
                r = await pool.request("POST", f"{'https' if tls else 'http'}://localhost:{srv.port}/", content=b"x" * 2000,
                                       extensions={"timeout": cfg})
                res["status"] = r.status
            except Exception as exc:  # noqa
                res["exc"] = exc
            finally:
                await pool.aclose()
        if backend == "anyio":
            _anyio.run(main)
        else:
            _trio.run(main)
    finally:
        am.anyio, tm.trio = saved
        srv.close()
    return res


def judge_async_ledger(res: dict) -> list:
    inf = float("inf")
    bad = []
    for fn, t in res["ledger"]:
        key = _OP_KEY.get(fn)
        if key is None:
            bad.append((fn, t, "unknown operation"))
            continue
        want = res["timeouts"].get(key)
        if res["backend"] == "trio" and want is None:
            want = inf
        if t != want or (want == 0 and t is None):
            bad.append((fn, t, want))
    return bad
