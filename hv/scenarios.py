"""Connection-type matrix and the single-injection scenario runner shared by the
fault/cancellation enumeration checks (C05, C06, C14, C16)."""
from __future__ import annotations

import anyio

from . import REPO  # noqa: F401
import httpcore

from . import simnet, endpoints, runners
from .endpoints import Resp
from .endpoints_h2 import SC as endpoints_h2_SC
from .simnet import CALL, FAULTS_FOR
from .world import (mk_pool, API, is_async, guarded, pool_counts, conn_state, owned_transports, exc_name,
                    documented)

TYPES = {
    "h1": dict(scheme="http"),
    "h1tls": dict(scheme="https", alpn=["http/1.1"]),
    "h2": dict(scheme="https", http2=True, alpn=["h2", "http/1.1"]),
    "h2pk": dict(scheme="http", http2=True, http1=False),
    # a server that allows ONE concurrent stream: a stream slot that is lost anywhere wedges the next request at once
    "h2-1slot": dict(scheme="https", http2=True, alpn=["h2", "http/1.1"], max_streams=1),
    "maybe-h2": dict(scheme="https", http2=True, alpn=["http/1.1"]),
    # the pool's uds= option: every connection is made to one unix socket, whatever the URL says
    "uds": dict(scheme="http", uds="/run/hv.sock"),
    "uds-tls": dict(scheme="https", uds="/run/hv.sock", alpn=["http/1.1"]),
    "fwd": dict(scheme="http", proxy="http"),
    "fwd-tls": dict(scheme="http", proxy="https"),
    "tun": dict(scheme="https", proxy="http", alpn=["http/1.1"]),
    "tun-h2": dict(scheme="https", proxy="http", http2=True, alpn=["h2"]),
    "tun-tls": dict(scheme="https", proxy="https", alpn=["http/1.1"]),
    "socks": dict(scheme="http", proxy="socks5"),
    "socks-auth-tls": dict(scheme="https", proxy="socks5", auth=True, alpn=["http/1.1"]),
    "socks-h2": dict(scheme="https", proxy="socks5", http2=True, alpn=["h2"]),
}
CORE_TYPES = ["h1", "h1tls", "h2", "h2-1slot", "fwd", "tun", "socks"]
SHAPES = ["get", "post3", "stream-partial", "short-body-warm"]

TYPE_CLASS = {"h1": "h1", "h1tls": "h1", "h2": "h2", "h2pk": "h2", "h2-1slot": "h2", "uds": "h1", "uds-tls": "h1", "maybe-h2": "h1", "fwd": "fwd", "fwd-tls": "fwd",
              "tun": "tun", "tun-h2": "tun", "tun-tls": "tun", "socks": "socks", "socks-auth-tls": "socks",
              "socks-h2": "socks"}


class TraceBoom(Exception):
    """Raised by the caller's own trace callback (a caller-side failure, not an httpcore exception)."""


class Sc:
    """A built scenario world."""

    def __init__(self, ctype: str, flavor: str, max_connections: int = 2, resp_delay: float = 1.0,
                 timeouts: dict | None = None, retries: int = 0, keepalive_expiry: float | None = None,
                 n_probe: int = 3, legacy_proxy: bool = False, log_events: bool = True, interim: bool = False,
                 trace_raise=None, trace_form="function") -> None:
        t = TYPES[ctype]
        self.ctype = ctype
        self.max_connections = max_connections
        self.t = t
        self.flavor = flavor
        self.net = net = simnet.Net()
        net.log_events = log_events
        scheme = t["scheme"]
        self.scheme = scheme
        tls = scheme == "https"
        port = 443 if tls else 80
        self.resp_delay = resp_delay

        def responder(req, origin):
            tok = req.token or b"-"
            body = b"echo:%b:tr%d:n%d:%b:" % (tok, req.tr, req.ordinal, origin.name.encode())
            body += b"#" * 3000
            return Resp(200, b"OK", [(b"X-Echo", tok)], body, delay=self.resp_delay, chunks=[1000, 1000, 2000],
                        framing="chunked" if req.proto == "h1" else "cl",
                        interim=[(100, b"Continue", []), (103, b"Early Hints", [(b"Link", b"</s.css>; rel=preload")])]
                        if interim else None)

        self.responder = responder
        reg = t.get("proxy") is None
        self.origins = []
        for host in ("o.test", "p.test"):
            self.origins.append(endpoints.Origin(net, host, port, tls=tls, alpn=t.get("alpn"), responder=responder,
                                                 register=reg,
                                                 h2_script=dict({"data_chunk": 1000}, **({"settings": {
                                                     endpoints_h2_SC.MAX_CONCURRENT_STREAMS: t["max_streams"]}} if t.get("max_streams") else {}))))
        self.probes = [endpoints.Origin(net, f"probe{i}.test", 80, register=reg) for i in range(n_probe)]
        self.proxy = None
        proxy_cfg = None
        if t.get("proxy") in ("http", "https"):
            self.proxy = endpoints.HTTPProxy(net, "proxy.test", 8080, tls=t["proxy"] == "https",
                                             origins=self.origins + self.probes)
            proxy_cfg = {"url": f"{t['proxy']}://proxy.test:8080", "headers": [(b"X-Proxy-H", b"ph")]}
        elif t.get("proxy") == "socks5":
            auth = (b"user", b"pass") if t.get("auth") else None
            self.proxy = endpoints.Socks5Proxy(net, "socks.test", 1080, origins=self.origins + self.probes, auth=auth)
            proxy_cfg = {"url": "socks5://socks.test:1080", "auth": auth}
        kw = dict(max_connections=max_connections, retries=retries, keepalive_expiry=keepalive_expiry)
        if t.get("uds"):
            net.add_uds(t["uds"], self.origins[0].factory)
            kw["uds"] = t["uds"]
        if "http2" in t:
            kw["http2"] = t["http2"]
        if "http1" in t:
            kw["http1"] = t["http1"]
        self.pool = mk_pool(flavor, net, proxy=proxy_cfg, legacy_proxy=legacy_proxy, **kw)
        self.api = API(flavor, self.pool, net)
        self.timeouts = timeouts
        self.phase = {}
        self.trace_yields = False
        # (suffix, n): the caller's trace callback raises TraceBoom at the n-th event whose name ends with the suffix
        self.trace_raise = tuple(trace_raise) if trace_raise else None
        self.trace_raise_seen = 0
        self.trace_form = trace_form
        self.trace_raise_fired = None

    def _trace_boom(self, name, call="victim"):
        if self.trace_raise is not None and call == "victim" and name.endswith(self.trace_raise[0]):
            self.trace_raise_seen += 1
            if self.trace_raise_seen == self.trace_raise[1]:
                self.trace_raise_fired = name
                raise TraceBoom(f"trace callback failed at {name}")

    def url(self, host="o.test", path="/x"):
        return f"{self.scheme}://{host}{path}"

    def ext(self, call, extra=None):
        """Request extensions: trace callback that records the current phase per call."""
        ph = self.phase.setdefault(call, {"cur": None, "hist": []})

        if is_async(self.flavor):
            async def trace(name, info):
                _trace(ph, name, info, self)
                self._trace_boom(name, call)
                if self.trace_yields:
                    # a caller's trace callback that awaits something: one more suspension point - between an operation
                    # and whatever the library does with its result - at which a cancellation can arrive
                    await anyio.lowlevel.checkpoint()
        else:
            def trace(name, info):
                _trace(ph, name, info, self)
                self._trace_boom(name, call)
        form = getattr(self, "trace_form", "function")
        if form == "object":
            # the callback is any callable: here an object whose __call__ is a coroutine function / a plain method
            if is_async(self.flavor):
                class _Cb:
                    async def __call__(self_, name, info):
                        await trace(name, info)
            else:
                class _Cb:
                    def __call__(self_, name, info):
                        trace(name, info)
            trace = _Cb()
        elif form == "partial":
            import functools
            inner = trace
            if is_async(self.flavor):
                async def _with_tag(tag, name, info):
                    await inner(name, info)
            else:
                def _with_tag(tag, name, info):
                    inner(name, info)
            trace = functools.partial(_with_tag, "tag")
        ext = {"trace": trace}
        if self.timeouts:
            ext["timeout"] = dict(self.timeouts)
        if extra:
            ext.update(extra)
        return ext


def _trace(ph, name, info=None, sc=None):
    if name == "http2.send_request_headers.started" and sc is not None:
        # the moment the client opens an HTTP/2 stream (before the HEADERS reach the wire): on which transports had it
        # already been handed a GOAWAY?
        seen = [oc.tr.id for o in sc.origins for oc in o.conns if oc.h2 is not None and oc.h2.goaway_consumed()]
        ph.setdefault("h2_open", []).append({"stream": (info or {}).get("stream_id"), "goaway_consumed_on": seen})
    base, _, what = name.rpartition(".")
    if what == "started":
        ph["cur"] = base
        ph["hist"].append(base)
    else:
        ph["cur"] = base + "." + what


async def victim_body(sc: Sc, shape: str, call="victim", host="o.test"):
    api = sc.api
    CALL.set(call)
    hdrs = [("X-Token", call)]
    if shape == "get":
        r = await api.request("GET", sc.url(host), headers=hdrs, extensions=sc.ext(call))
        return r.status, r.content[:40]
    if shape == "post3":
        body = api.body([b"a" * 700, b"b" * 700, b"c" * 700])
        r = await api.request("POST", sc.url(host), headers=hdrs, content=body, extensions=sc.ext(call))
        return r.status, r.content[:40]
    if shape == "post-big":
        # larger than the HTTP/2 initial window: the upload has to wait for credit, i.e. to READ in the middle of sending
        r = await api.request("POST", sc.url(host), headers=hdrs, content=b"B" * 200_000, extensions=sc.ext(call))
        return r.status, r.content[:40]
    if shape == "stream-partial":
        resp, cm = await api.open("GET", sc.url(host), headers=hdrs, extensions=sc.ext(call))
        try:
            chunks = await api.chunks(resp, limit=1)
        except BaseException as exc:
            await api.close(cm, exc)
            raise
        await api.close(cm)
        return resp.status, b"".join(chunks)[:40]
    if shape == "short-body-warm":
        # a kept-alive connection (one request served), then a request from a careless caller: fewer body bytes than its own
        # Content-Length announces. That call fails (LocalProtocolError - the caller's fault); what it leaves behind is judged
        r0 = await api.request("GET", sc.url(host), headers=hdrs, extensions=sc.ext(call))
        try:
            await api.request("POST", sc.url(host), headers=hdrs + [("Content-Length", "10")], content=api.body([b"12", b"345"]),
                              extensions=sc.ext(call))
        except httpcore.LocalProtocolError:
            return r0.status, b"short-body-rejected"
        return r0.status, b"short-body-accepted"
    raise ValueError(shape)


async def hold_body(sc: Sc, call: str, host: str, hold: float):
    """Open a response, hold it for `hold` virtual seconds, read it, close it."""
    api = sc.api
    CALL.set(call)
    resp, cm = await api.open("GET", sc.url(host), headers=[("X-Token", call)], extensions=sc.ext(call))
    try:
        await api.sleep(hold)
        chunks = await api.chunks(resp)
    except BaseException as exc:
        await api.close(cm, exc)
        raise
    await api.close(cm)
    return resp.status, b"".join(chunks)[:40]


CONTEXTS = ["alone", "alone-yielding-trace", "queued-behind-same", "queued-behind-other", "victim-queued", "shared-h2", "co-joins-connecting",
            "victim-joins-connecting", "two-cos-join-connecting"]


def contexts_for(ctype: str, flavor: str):
    if not is_async(flavor):
        return ["alone"]
    out = ["alone", "alone-yielding-trace", "queued-behind-same", "queued-behind-other", "victim-queued"]
    if TYPES[ctype].get("http2") and ctype != "maybe-h2":
        out += ["shared-h2", "shared-h2-yielding-trace", "queued-behind-same-yielding-trace"]
    if TYPES[ctype].get("http2") and TYPES[ctype]["scheme"] == "https":
        # several requests assigned to ONE connection while it is still being established (slow connect / TLS)
        # ("two-cos-...": two companions wait for the single stream slot a fresh HTTP/2 connection has)
        out += ["co-joins-connecting", "victim-joins-connecting", "two-cos-join-connecting", "co-joins-connecting-yielding-trace"]
    return out


async def run_injected(flavor: str, ctype: str, shape: str, context: str, inject, sc_kw=None):
    """One execution with at most one injection.

    inject: None | ("fault", op_index, kind) | ("cancel", style, k)
    Returns dict with sc, outcomes, K (victim yields), ops, phase_at_injection."""
    maxc = 2 if context in ("alone", "alone-yielding-trace", "shared-h2", "shared-h2-yielding-trace") else 1
    sc = Sc(ctype, flavor, max_connections=maxc, **(sc_kw or {}))
    net = sc.net
    if context == "alone-yielding-trace":
        sc.trace_yields = True
        context = "alone"
    elif context == "queued-behind-same-yielding-trace":
        # (HTTP/2: the companion is multiplexed on the victim's connection - with a one-stream server it waits for the
        # victim's stream slot - while the victim can be cancelled inside its awaiting trace callback)
        sc.trace_yields = True
        context = "queued-behind-same"
    elif context == "co-joins-connecting-yielding-trace":
        # (the companion is admitted to the connection while the victim still establishes and initialises it; the victim
        # can be cancelled inside its awaiting trace callback between any two of those steps)
        sc.trace_yields = True
        context = "co-joins-connecting"
    elif context == "shared-h2-yielding-trace":
        # the victim's trace callback awaits: every trace boundary is a suspension point at which it can be cancelled,
        # while a companion's stream keeps the connection busy (nothing rescues a half-closed stream there)
        sc.trace_yields = True
        context = "shared-h2"
    if context in ("co-joins-connecting", "victim-joins-connecting", "two-cos-join-connecting"):
        net.latency = lambda kind, idx: 0.3 if kind in ("connect", "start_tls") else 0.0
    res = {"sc": sc, "outcomes": {}, "K": 0, "inj_phase": None, "fired": False}
    style, k = None, None
    if inject is not None and inject[0] == "fault":
        net.faults[inject[1]] = inject[2]
    elif inject is not None and inject[0] == "fault+cancel":
        # two events: the fault, and then a one-shot task cancellation (which no shielded scope holds off) at the j-th
        # suspension point the victim reaches after the fault - i.e. while it is cleaning up after the failure
        net.faults[inject[1]] = inject[2]
        j = inject[3]
        style = "native"
        seen_at = {}

        def k(n):
            if not net.fault_fired or res.get("fault_call") != "victim":
                return False
            seen_at.setdefault("n0", n)
            return n >= seen_at["n0"] + j - 1
    elif inject is not None and inject[0] == "trace-raise+cancel":
        # the victim's trace callback raises (the request fails, the connection is fine), and a one-shot task cancellation
        # arrives at the j-th suspension point the victim reaches afterwards - inside its clean-up when the callback awaits
        sc.trace_raise = (inject[1], inject[2])
        j = inject[3]
        style = "native"
        seen_at = {}

        def k(n):
            if sc.trace_raise_fired is None:
                return False
            seen_at.setdefault("n0", n)
            return n >= seen_at["n0"] + j - 1
    elif inject is not None and inject[0] == "trace-raise":
        # the victim's own trace callback raises at the n-th event with the given suffix: a failure between two steps of
        # the library, at a place where no network operation and no suspension point need be
        sc.trace_raise = (inject[1], inject[2])
    elif inject is not None:
        style, k = inject[1], inject[2]

    def make():
        return victim_body(sc, shape)

    def on_fire():
        ph_ = sc.phase.get("victim")
        res["inj_phase"] = ph_["cur"] if ph_ else "before-first-trace"
        res["fired"] = True

    def on_fault(idx, kind, fault):
        ph_ = sc.phase.get(CALL.get())
        res["inj_phase"] = (ph_["cur"] if ph_ else "before-first-trace")
        res["fault_call"] = CALL.get()

    net.on_fault = on_fault

    async def victim():
        if is_async(flavor):
            # wrap the hook to capture the phase at the injection instant
            out, K = await runners.run_with_cancel(flavor, make, style, k, on_fire)
        else:
            out = await guarded(flavor, make)
            K = 0
        res["outcomes"]["victim"] = out
        res["K"] = K

    async def co(name, fn):
        try:
            v = await fn()
            res["outcomes"][name] = runners.Outcome("ok", v)
        except Exception as exc:  # noqa
            res["outcomes"][name] = runners.Outcome("exc", exc=exc)

    async def body():
        if context == "alone":
            await victim()
        else:
            async with anyio.create_task_group() as tg:
                if context in ("queued-behind-same", "queued-behind-other"):
                    tg.start_soon(victim)
                    host = "o.test" if context == "queued-behind-same" else "p.test"

                    async def later():
                        await anyio.sleep(0.1)
                        return await victim_body(sc, "get", "co", host)
                    tg.start_soon(co, "co", later)
                elif context == "victim-queued":
                    tg.start_soon(co, "holder", lambda: hold_body(sc, "holder", "p.test", 2.0))

                    async def vlater():
                        await anyio.sleep(0.1)
                        await victim()
                    tg.start_soon(vlater)
                elif context == "co-joins-connecting":
                    tg.start_soon(victim)

                    async def later2():
                        await anyio.sleep(0.1)
                        return await victim_body(sc, "get", "co", "o.test")
                    tg.start_soon(co, "co", later2)
                elif context == "two-cos-join-connecting":
                    tg.start_soon(victim)
                    for nm, dt in (("co", 0.1), ("co2", 0.2)):
                        async def later4(nm=nm, dt=dt):
                            await anyio.sleep(dt)
                            return await victim_body(sc, "get", nm, "o.test")
                        tg.start_soon(co, nm, later4)
                elif context == "victim-joins-connecting":
                    tg.start_soon(co, "co", lambda: victim_body(sc, "get", "co", "o.test"))

                    async def vlater3():
                        await anyio.sleep(0.1)
                        await victim()
                    tg.start_soon(vlater3)
                elif context == "shared-h2":
                    tg.start_soon(co, "co", lambda: hold_body(sc, "co", "o.test", 3.0))

                    async def vlater2():
                        await anyio.sleep(1.5)
                        await victim()
                    tg.start_soon(vlater2)
        return True

    out = await guarded(flavor, body)
    res["run"] = out
    if inject and inject[0] == "fault":
        res["fired"] = bool(net.fault_fired)
    if inject and inject[0] == "fault+cancel":
        res["fault_fired"] = bool(net.fault_fired)
    if inject and inject[0] == "trace-raise+cancel":
        res["fault_fired"] = sc.trace_raise_fired is not None
    if inject and inject[0] == "trace-raise":
        res["fired"] = sc.trace_raise_fired is not None
        res["inj_phase"] = sc.trace_raise_fired
    ph = sc.phase.get("victim")
    res["phase"] = ph["cur"] if ph else None
    return res


def applicable_faults(ops):
    """[(idx, kind, fault)] for every op of a baseline run."""
    out = []
    for idx, kind, tr, call in ops:
        for f in FAULTS_FOR[kind]:
            out.append((idx, kind, f))
    return out


def styles_for(flavor: str):
    if flavor == "asyncio":
        return ["scope-before", "scope-after", "native"]
    if flavor == "trio":
        return ["scope-before", "scope-after"]
    return []


async def post_checks(res, flavor: str):
    """Observations at quiescence, then the capacity probe, then pool close.
    Returns a dict of facts for the C05 / C06 oracles."""
    sc = res["sc"]
    net, pool, api = sc.net, sc.pool, sc.api
    CALL.set("post")
    facts = {}
    facts["counts"] = pool_counts(pool)
    conns = list(pool.connections)
    facts["conns"] = [conn_state(c) for c in conns]
    owned = set()
    for c in conns:
        owned |= owned_transports(c)
    open_now = [t for t in net.transports if not t.closed]
    facts["open"] = [t.id for t in open_now]
    facts["orphans"] = [{"tr": t.id, "target": list(t.target), "opened_by": t.opened_by, "layers": len(t.layers)}
                        for t in open_now if t.id not in owned]
    facts["owned_per_conn"] = [len(owned_transports(c) & {t.id for t in open_now}) for c in conns]
    # reuse probe: the single injection is over and the endpoints are healthy, so whatever the pool still offers for the
    # victim's origin must be able to serve a request ("idle, so that it can be reused")
    net.faults.clear()
    CALL.set("reuse")
    reuse = await guarded(flavor, lambda: api.request("GET", sc.url(), headers=[("X-Token", "reuse")],
                                                      extensions={"timeout": {"pool": 1.0}}))
    if reuse.kind == "ok":
        facts["reuse_probe"] = "ok" if reuse.value.status == 200 else f"status-{reuse.value.status}"
    else:
        facts["reuse_probe"] = exc_name(reuse.exc) if reuse.kind == "exc" else reuse.kind
    facts["reuse_probe_conns"] = [conn_state(c) for c in pool.connections]
    CALL.set("post")
    # capacity probe through the public API
    n = min(sc.max_connections, len(sc.probes))
    opened = []
    probe = {"wanted": n, "got": 0, "errors": []}

    async def do_probe():
        for i in range(n):
            try:
                resp, cm = await api.open("GET", f"http://probe{i}.test/", headers=[("X-Token", f"probe{i}")],
                                          extensions={"timeout": {"pool": 1.0}})
                opened.append(cm)
                probe["got"] += 1
            except Exception as exc:  # noqa
                probe["errors"].append(exc_name(exc))
        for cm in opened:
            try:
                await api.close(cm)
            except Exception as exc:  # noqa
                probe["errors"].append("close:" + exc_name(exc))
        return True

    out = await guarded(flavor, do_probe)
    if out.kind != "ok":
        probe["errors"].append(out.kind)
    facts["probe"] = probe
    facts["counts_after_probe"] = pool_counts(pool)
    out = await guarded(flavor, api.close_pool)
    facts["close_pool"] = out.kind if out.kind != "exc" else exc_name(out.exc)
    facts["open_after_close"] = [{"tr": t.id, "target": list(t.target), "opened_by": t.opened_by,
                                  "layers": len(t.layers)} for t in net.transports if not t.closed]
    return facts
