"""Concurrent hostile workload engine shared by C01, C04, C07 (async flavours) and, through
the thread scheduler, C08. A workload is a JSON-able spec; everything random derives from
its seed, so a spec replays exactly (trio: with the scheduler RNG seeded too)."""
from __future__ import annotations

import random
import zlib

import anyio

from . import REPO  # noqa: F401
import httpcore

from . import simnet, endpoints, runners
from .endpoints import Resp
from .simnet import CALL
from .world import (mk_pool, API, is_async, guarded, pool_counts, owned_transports, exc_name, documented)

BEHAVIOURS = ["read", "read", "read", "head-only", "partial", "cancel", "timeout", "post", "bad-upload", "bad-head"]
SERVER_MODES_H1 = ["keepalive", "keepalive", "keepalive", "chunked", "conn-close", "http10", "close-delimited"]


def gen_spec(r: random.Random, flavor: str, **over) -> dict:
    proto = r.choice(["h1", "h1", "h2", "h1tls"])
    spec = {
        "seed": r.randrange(1 << 30), "flavor": flavor, "proto": proto,
        "n_origins": r.choice([1, 2, 3]),
        "max_connections": r.choice([1, 1, 2, 3]),
        "max_keepalive": r.choice([None, None, 0, 1, 2]),
        "keepalive_expiry": r.choice([None, None, 0.05, 1.0]),
        "n_callers": r.randint(2, 6),
        "reqs": r.randint(2, 5),
        "proxy": r.choice([None, None, None, "fwd", "tun", "socks"]),
        "behaviours": list(BEHAVIOURS),
        "server_modes": True,
        "early": r.random() < 0.1,
        "fault_ops": sorted(r.sample(range(5, 200), r.choice([0, 0, 1, 2, 4]))),
        "latency": r.choice(["zero", "mixed", "mixed"]),
        "think": r.choice([0.0, 0.01, 0.3]),
        "pool_timeout": r.choice([None, None, 5.0]),
        "resp_delay": r.choice([0.0, 0.0, 0.05, 0.5]),
        # connection attempts that fail (ConnectError / ConnectTimeout) and are retried with back-off by direct connections
        "retries": r.choice([0, 0, 1, 3]),
        "connect_fail": r.choice([0.0, 0.0, 0.0, 0.3, 0.6]),
        # same-instant scheduling jitter: operations complete 0-3 scheduler round-trips later (asyncio's FIFO order
        # is otherwise fully determined by the program)
        "jitter": r.random() < 0.5,
        # the callers' trace callback awaits (async flavours): every trace boundary of the library becomes a suspension
        # point at which the other callers run
        "trace_yields": r.random() < 0.25,
        "unsolicited": False,
    }
    if proto == "h2":
        spec["proxy"] = r.choice([None, None, "tun", "socks"])
    if spec["proxy"] == "fwd" and proto != "h1":
        spec["proxy"] = "tun"
    if spec["proxy"] == "tun" and proto == "h1":
        spec["proto"] = "h1tls"
    if spec["proto"] == "h2" and r.random() < 0.3:
        # the server shuts connections down gracefully now and then: GOAWAY at the head/end of its n-th request
        spec["h2_script"] = {"actions": [{"when": [r.choice(["head", "end"]), r.randrange(0, 6)], "do": "goaway",
                                          "last": r.choice(["this", "prev", 0, 2 ** 31 - 1])}]}
    if spec["proto"] == "h1tls" and r.random() < 0.4:
        # pool believes the connection may become HTTP/2; ALPN says HTTP/1.1: concurrent requests get re-queued
        spec["pool_kw"] = {"http2": True}
    spec.update(over)
    return spec


def _rng_for(seed: int, token: bytes) -> random.Random:
    return random.Random(zlib.crc32(token) ^ seed)


class Workload:
    def __init__(self, spec: dict) -> None:
        self.spec = spec
        self.flavor = spec["flavor"]
        self.rng = random.Random(spec["seed"])
        self.net = net = simnet.Net(spec["seed"])
        proto = spec["proto"]
        tls = proto in ("h2", "h1tls")
        self.scheme = "https" if tls else "http"
        port = 443 if tls else 80
        alpn = ["h2", "http/1.1"] if proto == "h2" else (["http/1.1"] if tls else None)
        self.origins = []
        reg = spec["proxy"] is None
        lat_rng = random.Random(spec["seed"] + 1)
        if spec["latency"] == "mixed":
            net.latency = lambda kind, idx: lat_rng.choice([0.0, 0.0, 0.0, 0.001, 0.01, 0.1])
        if spec.get("jitter"):
            hop_rng = random.Random(spec["seed"] + 7)
            net.hops = lambda kind, idx: hop_rng.choice([0, 0, 0, 1, 2, 3])
        seed = spec["seed"]
        modes = spec.get("server_modes", True)
        base_delay = spec.get("resp_delay", 0.0)
        max_body = spec.get("max_body", 40000)

        def responder(req, origin):
            tok = req.token or b"-"
            rr = _rng_for(seed, tok)
            size = min(rr.choice([0, 10, 500, 5000, 40000]), max_body)
            body = b"echo:%b:tr%d:n%d:%b:" % (tok, req.tr, req.ordinal, origin.name.encode()) + (b"%x" % zlib.crc32(tok)) * (size // 8)
            mode = rr.choice(SERVER_MODES_H1) if (modes and req.proto == "h1") else "keepalive"
            if mode == "keepalive" and req.proto == "h1" and modes and spec.get("unsolicited") and rr.random() < 0.15:
                mode = "unsolicited"
            delay = base_delay * rr.choice([0, 1, 1, 3])
            seen = [v for k, v in getattr(req, "h2_headers", None) or [] if k == b":authority"] or req.header(b"host")
            hs = [(b"X-Echo", tok), (b"X-Mode", mode.encode()), (b"X-Host-Seen", b",".join(seen))]
            if req.proto != "h1":
                return Resp(200, b"OK", hs, body, delay=delay)
            if mode == "chunked":
                return Resp(200, b"OK", hs, body, framing="chunked", chunks=[rr.choice([1, 100, 4000]) for _ in range(5)], delay=delay)
            if mode == "conn-close":
                return Resp(200, b"OK", hs, body, conn_close=True, delay=delay)
            if mode == "http10":
                return Resp(200, b"OK", hs, body, framing="close", http10=True, delay=delay)
            if mode == "close-delimited":
                return Resp(200, b"OK", hs, body, framing="close", delay=delay)
            if mode == "unsolicited":
                # a broken (or hostile) server: a complete keep-alive response, and behind it - in the same segment - a second
                # response that nobody asked for. Whoever uses the connection next must not be handed it as their answer
                return Resp(200, b"OK", hs, body, delay=delay,
                            after=b"HTTP/1.1 200 OK\r\nContent-Length: 6\r\nX-Echo: nobody\r\n\r\nstale!")
            # now and then the final response is preceded by interim ones (any 1xx but 101 is to be skipped, RFC 9110 15.2)
            interim = None
            if modes and rr.random() < 0.12:
                interim = [(rr.choice([100, 102, 103, 104, 199]), b"Interim", [(b"X-Echo", b"interim"), (b"X-Interim-For", tok)])
                           for _ in range(rr.choice([1, 1, 2]))]
            return Resp(200, b"OK", hs, body, delay=delay, body_delay=delay / 2 if delay else 0.0, interim=interim)

        h2s = {"data_chunk": 4000}
        if spec.get("h2_settings"):
            h2s["settings"] = {int(k): v for k, v in spec["h2_settings"].items()}
        if spec.get("h2_script"):
            extra = dict(spec["h2_script"])
            if "settings" in extra:
                extra["settings"] = {int(k): v for k, v in extra["settings"].items()}
            for act in extra.get("actions", []):
                if "settings" in act:
                    act["settings"] = {int(k): v for k, v in act["settings"].items()}
            h2s.update(extra)
        if spec.get("segmentation") == "random":
            net.segmentation = simnet.Segmentation("random", rng=random.Random(spec["seed"] + 3))
        elif spec.get("segmentation") == "bytes":
            net.segmentation = simnet.Segmentation("fixed", 7)
        for i in range(spec["n_origins"]):
            o = endpoints.Origin(net, f"o{i}.test", port, tls=tls, alpn=alpn, responder=responder, register=reg,
                                 h2_script=dict(h2s))
            o.early = spec.get("early", False)
            self.origins.append(o)
        proxy_cfg = None
        self.proxy = None
        if spec["proxy"] in ("fwd", "tun"):
            self.proxy = endpoints.HTTPProxy(net, "proxy.test", 8080, origins=self.origins)
            proxy_cfg = {"url": "http://proxy.test:8080"}
        elif spec["proxy"] == "socks":
            self.proxy = endpoints.Socks5Proxy(net, "socks.test", 1080, origins=self.origins)
            proxy_cfg = {"url": "socks5://socks.test:1080"}
        for idx in spec.get("fault_ops", []):
            net.faults[idx] = None  # resolved lazily by kind
        self._fault_ops = set(spec.get("fault_ops", []))
        frng = random.Random(spec["seed"] + 2)
        cfail = spec.get("connect_fail", 0.0)
        orig_begin = net.begin_op

        def begin(kind, tr, **kw):
            idx, fault = orig_begin(kind, tr, **kw)
            if idx in self._fault_ops:
                fault = frng.choice(simnet.FAULTS_FOR[kind])
            elif kind == "connect" and cfail and frng.random() < cfail:
                fault = frng.choice(["ConnectError", "ConnectTimeout"])
            return idx, fault
        net.begin_op = begin
        kw = dict(max_connections=spec["max_connections"], max_keepalive_connections=spec["max_keepalive"],
                  keepalive_expiry=spec["keepalive_expiry"])
        if proto == "h2":
            kw["http2"] = True
        if spec.get("retries"):
            kw["retries"] = spec["retries"]
        kw.update(spec.get("pool_kw", {}))
        self.pool = mk_pool(self.flavor, net, proxy=proxy_cfg, **kw)
        self.api = API(self.flavor, self.pool, net)
        # plan of requests: callers x reqs
        self.plan = []
        for c in range(spec["n_callers"]):
            row = []
            for j in range(spec["reqs"]):
                row.append({
                    "token": f"c{c}r{j}",
                    "origin": self.rng.randrange(spec["n_origins"]),
                    "beh": self.rng.choice(spec["behaviours"]),
                    "k": self.rng.randint(1, 40),
                    "style": self.rng.choice(["scope-before", "scope-after"] + (["native"] if self.flavor == "asyncio" else [])),
                    "think": spec["think"] * self.rng.random(),
                })
            self.plan.append(row)
        # "snipes": when a request has ended, its caller cancels whatever another caller has in flight at that very
        # instant (asyncio: task.cancel(), the wait_for / timeout() mechanism; trio: a cancel scope) - a cancellation
        # whose timing is decided by another task's progress, e.g. right after it handed a connection over
        srng = random.Random(spec["seed"] + 5)
        if spec.get("snipes", True) and is_async(self.flavor) and spec["n_callers"] > 1:
            for c, row in enumerate(self.plan):
                for q in row:
                    if srng.random() < spec.get("snipe_p", 0.15):
                        q["snipe"] = srng.choice([x for x in range(spec["n_callers"]) if x != c])
        self.inflight: dict = {}
        self.snipes_fired = 0
        self.records: list[dict] = []

    def url(self, q):
        return f"{self.scheme}://o{q['origin']}.test/{q['token']}"

    async def do_request(self, q):
        api = self.api
        tok = q["token"]
        CALL.set(tok)
        hdrs = [("X-Token", tok)]
        ext = {}
        to = {}
        vh = self.vhost(q)
        if vh is not None:
            # a virtual host: same connection key (URL origin), another Host header
            hdrs.insert(0, ("Host", vh))
        ptc = self.spec.get("pool_timeout_callers")
        if self.spec.get("pool_timeout") is not None and (ptc is None or int(tok[1:].split("r")[0]) in ptc):
            to["pool"] = self.spec["pool_timeout"]
            rec_pool_timeout = to["pool"]
        else:
            rec_pool_timeout = None
        beh = q["beh"]
        if beh == "timeout":
            to["read"] = 0.01
        if to:
            ext["timeout"] = to
        if self.spec.get("trace_yields") and self.api.a:
            yr = _rng_for(self.spec["seed"] + 11, tok.encode())

            async def trace(name, info):
                for _ in range(yr.choice([0, 1, 1, 2])):
                    await anyio.lowlevel.checkpoint()
            ext["trace"] = trace
        rec = {"token": tok, "beh": beh, "origin": q["origin"], "t0": self.net.now(), "pool_timeout": rec_pool_timeout}
        rec["host_wanted"] = vh or f"o{q['origin']}.test"
        self.records.append(rec)

        async def full(method="GET", content=None):
            r = await api.request(method, self.url(q), headers=hdrs, content=content, extensions=ext)
            return {"status": r.status, "headers": list(r.headers), "body": r.content, "complete": True}

        try:
            sniped = await self._cancellable(q, rec, full, beh, hdrs, ext)
            if sniped:
                rec["cancelled"] = True
                rec["sniped"] = True
            rec["end"] = "ok" if "got" in rec else "cancelled"
        except Exception as exc:  # noqa
            rec["end"] = "exc"
            rec["exc"] = exc
        rec["t1"] = self.net.now()
        return rec

    def _snipe(self, q):
        victim = q.get("snipe")
        if victim is not None and victim in self.inflight:
            self.snipes_fired += 1
            self.inflight[victim]()

    async def _cancellable(self, q, rec, full, beh, hdrs, ext):
        """Runs the request so that another caller can cancel it from outside; returns True if that happened."""
        c = int(q["token"][1:].split("r")[0])
        if not is_async(self.flavor):
            await self._behave(q, rec, full, beh, hdrs, ext)
            return False
        if self.flavor == "asyncio":
            import asyncio
            task = asyncio.get_running_loop().create_task(self._behave(q, rec, full, beh, hdrs, ext))
            fired = []

            def kill():
                fired.append(1)
                task.cancel()
            self.inflight[c] = kill
            try:
                await task
            except asyncio.CancelledError:
                if fired and task.cancelled() and not asyncio.current_task().cancelling():
                    return True
                raise
            finally:
                self.inflight.pop(c, None)
            return False
        with anyio.CancelScope() as scope:
            self.inflight[c] = scope.cancel
            try:
                await self._behave(q, rec, full, beh, hdrs, ext)
            finally:
                self.inflight.pop(c, None)
        return scope.cancelled_caught

    async def _behave(self, q, rec, full, beh, hdrs, ext):
        api = self.api
        try:
            await self._behave1(q, rec, full, beh, hdrs, ext)
        finally:
            # in the same step in which the request ended (no trip through the event loop in between)
            self._snipe(q)

    async def _behave1(self, q, rec, full, beh, hdrs, ext):
        api = self.api
        if True:
            if beh in ("read", "timeout"):
                rec["got"] = await full()
            elif beh == "post":
                rec["got"] = await full("POST", api.body([b"p" * 300, b"q" * 300]))
            elif beh == "bad-head":
                # a caller bug that is caught before anything is sent: an illegal header value
                if self.spec["proto"] == "h2" and q["k"] % 2:
                    # ... or, on HTTP/2, a head that only the h2 package objects to (RFC 9113 8.2.2), while it is
                    # HPACK-encoding it: fields it has never seen before come first
                    hdrs.extend([(f"X-Fresh-{q['token']}", f"v-{q['token']}"), ("TE", "gzip")])
                    rec["bad_head_kind"] = "h2-te"
                else:
                    hdrs.append(("X-Bad", "a\nb"))
                rec["got"] = await full()
            elif beh == "bad-upload":
                # a caller bug: the body does not match the declared Content-Length (too short or too long); the
                # head - and the first chunk - are on the wire when the library notices
                if self.spec["proto"] == "h2":
                    rec["got"] = await full("POST", api.body([b"p" * 300]))
                else:
                    hdrs.append(("Content-Length", "10"))
                    chunks = [b"12345"] if q["k"] % 2 else [b"12345", b"6789012345"]
                    rec["got"] = await full("POST", api.body(chunks))
            elif beh in ("head-only", "partial"):
                resp, cm = await api.open("GET", self.url(q), headers=hdrs, extensions=ext)
                try:
                    chunks = await api.chunks(resp, limit=1) if beh == "partial" else []
                except BaseException as exc:
                    await api.close(cm, exc)
                    raise
                await api.close(cm)
                rec["got"] = {"status": resp.status, "headers": list(resp.headers), "body": b"".join(chunks), "complete": False}
            elif beh == "cancel":
                out, K = await runners.run_with_cancel(self.flavor, lambda: full(), q["style"], q["k"])
                rec["K"] = K
                if out.kind == "ok":
                    rec["got"] = out.value
                elif out.kind == "exc":
                    raise out.exc
                else:
                    rec["cancelled"] = True

    async def caller(self, c):
        for q in self.plan[c]:
            if q["think"]:
                await self.api.sleep(q["think"])
            await self.do_request(q)
        return True

    async def run(self):
        """Run all callers concurrently (async flavours). Returns guarded Outcome."""
        if self.flavor == "trio":
            runners._trio_run._r.seed(self.spec["seed"])  # replayable per workload
        async def body():
            async with anyio.create_task_group() as tg:
                for c in range(self.spec["n_callers"]):
                    tg.start_soon(self.caller, c)
            return True
        return await guarded(self.flavor, body)

    # -- oracles shared by checks ------------------------------------------------
    def ground_truth(self, token: str):
        out = []
        for o in self.origins:
            out.extend(o.by_token.get(token.encode(), []))
        return out

    def vhost(self, q):
        if not self.spec.get("vhosts"):
            return None
        k = zlib.crc32(q["token"].encode()) % 4
        return None if k == 0 else f"v{k}.o{q['origin']}.test"

    def echo_violations(self):
        """C01(a): every response a caller received is the one sent for its own token."""
        bad = []
        n = 0
        for rec in self.records:
            got = rec.get("got")
            if got is None:
                continue
            n += 1
            tok = rec["token"].encode()
            truths = self.ground_truth(rec["token"])
            echo = [v for k, v in got["headers"] if k.lower() == b"x-echo"]
            if echo != [tok]:
                bad.append(("foreign-response-headers", rec, f"X-Echo {echo!r} for token {tok!r}"))
                continue
            if not truths:
                bad.append(("response-without-request-at-origin", rec, "no ground truth"))
                continue
            if self.spec.get("vhosts") and rec.get("host_wanted") is not None:
                seen = [v for k, v in got["headers"] if k.lower() == b"x-host-seen"]
                if seen != [rec["host_wanted"].encode()]:
                    bad.append(("answered-by-another-virtual-host", rec, f"request for Host {rec['host_wanted']!r} was "
                                f"answered as {seen!r}"))
                    continue
            ok = False
            for req, resp in truths:
                exp = b"" if resp.no_body else resp.body
                if got["complete"]:
                    if got["body"] == exp and got["status"] == resp.status:
                        ok = True
                elif exp.startswith(got["body"]) and got["status"] == resp.status:
                    ok = True
            if not ok:
                body = got["body"]
                kind = "foreign-body" if not body.startswith(b"echo:" + tok + b":") and body else "body-differs"
                bad.append((kind, rec, f"body {body[:60]!r} ({len(body)} bytes) does not match what the origin sent for {tok!r}"))
        return n, bad

    def wire_anomalies(self):
        out = []
        for o in self.origins + ([self.proxy] if self.proxy is not None else []):
            for a in o.anomalies:
                out.append((o.name, a))
        return out


class LimitObserver:
    """C04: evaluated after every ledger event.

    pooled   = pool.connections now;  evicted = connections that were pooled once and are not any more
    An open stream is: owned by a pooled connection | owned by an evicted connection (excused: being closed) |
    establishing (never owned yet). Invariants: len(pooled) <= N; a pooled connection owns <= 1 open stream;
    #establishing <= #pooled connections that own none; #owned-by-pooled + #establishing <= N."""

    def __init__(self, wl: Workload) -> None:
        self.wl = wl
        self.N = wl.spec["max_connections"]
        self.evals = 0
        self.full_evals = 0
        self.max_conns = 0
        self.max_open = 0
        self.ever_pooled: dict[int, object] = {}
        self.evicted: dict[int, object] = {}
        self.ever_owned: set[int] = set()
        self.viol: list = []
        self.max_excused = 0
        self.busy = False
        self.evicted_open_prev: set[int] = set()
        self.used_after_drop: set[int] = set()

    def __call__(self, rec) -> None:
        if self.busy:
            return
        self.busy = True
        try:
            self._eval(rec)
        finally:
            self.busy = False

    def _eval(self, rec) -> None:
        wl = self.wl
        self.evals += 1
        conns = wl.pool.connections
        n = len(conns)
        self.max_conns = max(self.max_conns, n)
        if n > self.N and len(self.viol) < 5:
            self.viol.append(("pool-holds-more-than-limit", {"connections": n, "limit": self.N, "event": rec["ev"], "seq": rec["seq"]}))
        cur = {id(c) for c in conns}
        for c in conns:
            if id(c) not in self.ever_pooled:
                self.ever_pooled[id(c)] = c
            self.evicted.pop(id(c), None)
        for i, c in self.ever_pooled.items():
            if i not in cur and i not in self.evicted:
                self.evicted[i] = c
        net = wl.net
        self.max_open = max(self.max_open, net.open_count)
        if rec["ev"] not in ("connect.ret", "close", "start_tls.ret", "write.ret", "read.ret"):
            return
        self.full_evals += 1
        if rec["ev"] in ("read.ret", "write.ret") and rec.get("n") and rec.get("tr") in self.evicted_open_prev:
            self.used_after_drop.add(rec["tr"])  # request/response bytes moved on a connection the pool had dropped
        open_now = {t.id for t in net.transports if not t.closed}
        owned_by = []
        owned_pooled = set()
        for c in conns:
            o = owned_transports(c) & open_now
            owned_by.append(o)
            owned_pooled |= o
        owned_evicted = set()
        in_use_evicted = set()
        reqs = getattr(wl.pool, "_requests", None) or []
        for i, c in list(self.evicted.items()):
            o = owned_transports(c) & open_now
            if o:
                owned_evicted |= o
                # "evicted and being closed" is the only excuse: a connection that was dropped from the pool, still has a
                # request assigned and still moves that request's bytes is neither - its stream counts against the
                # limit. (Under threads a connection is legitimately seen as dropped for a moment between the line that
                # marks it closed and the line that closes its stream: no bytes move in that window.)
                if any(getattr(pr, "connection", None) is c for pr in reqs):
                    in_use_evicted |= (o & self.used_after_drop)
        self.evicted_open_prev = owned_evicted
        self.ever_owned |= owned_pooled | owned_evicted
        if any(len(o) > 1 for o in owned_by) and len(self.viol) < 5:
            self.viol.append(("connection-owns-several-open-streams", {"owned": [sorted(o) for o in owned_by], "seq": rec["seq"]}))
        establishing = open_now - self.ever_owned
        excused = open_now - owned_pooled - establishing - in_use_evicted
        if len(owned_pooled) + len(in_use_evicted) + len(establishing) > self.N and in_use_evicted and len(self.viol) < 5:
            self.viol.append(("dropped-connection-still-in-use-over-limit", {
                "open": sorted(open_now), "owned_by_pooled": sorted(owned_pooled), "dropped_but_in_use": sorted(in_use_evicted),
                "establishing": sorted(establishing), "limit": self.N, "seq": rec["seq"], "event": rec["ev"]}))
        self.max_excused = max(self.max_excused, len(excused))
        empty_slots = sum(1 for o in owned_by if not o)
        if (len(establishing) > empty_slots or len(owned_pooled) + len(establishing) > self.N) and len(self.viol) < 5:
            self.viol.append(("more-streams-open-than-limit", {
                "open": sorted(open_now), "owned_by_pooled": sorted(owned_pooled), "establishing": sorted(establishing),
                "evicted_closing": sorted(excused), "pool_connections": n, "limit": self.N, "seq": rec["seq"],
                "event": rec["ev"]}))

    def leftovers(self):
        """At the end of a workload: open streams still owned by evicted connections (never closed)."""
        open_now = {t.id for t in self.wl.net.transports if not t.closed}
        out = set()
        for c in self.evicted.values():
            out |= owned_transports(c) & open_now
        return sorted(out)
