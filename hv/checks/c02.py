"""C02 — responses delivered byte-exact, independent of network segmentation; truncation
is an error, never a silently shorter body. Equality oracle against the endpoint's ground
truth over generated responses x segmentations x truncation points."""
from __future__ import annotations

import random

from .. import REPO  # noqa: F401
import httpcore

from .. import simnet, endpoints, gen
from ..simnet import Segmentation
from ..world import mk_pool, API, run_flavor, guarded, exc_name, documented

ID = "C02"
LEVEL = "exploration"
RULE = ("seeded well-formed responses (status, reason, header list with case/duplicates, Content-Length / "
        "chunked with chosen chunk sizes / close-delimited / HTTP/1.0, HEAD/204/304, 0-3 interim 1xx, trailers; "
        "HTTP/2 HEADERS/DATA with chosen DATA sizes, padding, trailers) x segmentations (all-at-once, 1 byte, "
        "seeded random, every single cut position for wires <= 400 bytes) x every truncation point for small "
        "wires; distinct+non-trivial = (proto, framing, status class, method, interim count, body size class, "
        "segmentation kind, truncation?)")
ASSUMPTIONS = ["ground truth is what the harness endpoint serialised (own serialiser, not h11)",
               "close-delimited bodies are excluded from the truncation oracle (EOF is the frame)"]
REQUIRED = ["responses", "oracle_equal", "oracle_truncation", "cuts_exhaustive"]


def _origin(net, spec, truncate=None, trunc_how="rst"):
    h2 = spec["proto"] == "h2"

    def responder(req, origin):
        if (req.token or b"").startswith(b"w"):
            return endpoints.Resp(200, b"OK", [(b"X-Warm", b"1")], b"warm")
        resp = gen.build_resp(spec)
        resp.truncate = truncate
        resp.truncate_how = trunc_how
        return resp

    script = None
    if h2:
        script = {"data_chunk": spec["data_chunk"], "pad": spec["pad"], "empty_every": spec.get("empty_every")}
    return endpoints.Origin(net, "o.test", 443 if h2 else 80, tls=h2, alpn=["h2"] if h2 else None,
                            responder=responder, h2_script=script)


async def _one(flavor, spec, seg, truncate=None, trunc_how="rst"):
    """Run one request; returns (outcome, origin, net)."""
    net = simnet.Net()
    net.log_events = False
    net.segmentation = seg
    if trunc_how == "close-wok":
        # the peer's FIN does not make our next write fail (the usual case on real sockets)
        net.write_after_server_close = "ok"
        trunc_how = "close"
    origin = _origin(net, spec, truncate, trunc_how)
    h2 = spec["proto"] == "h2"
    pool = mk_pool(flavor, net, http2=h2)
    api = API(flavor, pool, net)
    url = ("https" if h2 else "http") + "://o.test/x"

    async def scen():
        # the measured response may be the second or third one on a kept-alive connection
        for i in range(spec.get("warm", 0)):
            await api.request("GET", url, headers=[("X-Token", f"w{i}")])
        net.hv_warm_len = net.transports[0].produced if net.transports else 0
        resp, cm = await api.open(spec["method"], url, headers=[("X-Token", "t")])
        try:
            chunks = await api.chunks(resp)
        except BaseException as exc:
            try:
                await api.close(cm, exc)
            except BaseException:
                pass
            raise
        await api.close(cm)
        return (resp.status, resp.extensions.get("reason_phrase"), resp.extensions.get("http_version"),
                list(resp.headers), chunks)

    out = await guarded(flavor, scen)
    try:
        await api.close_pool()
    except Exception:  # noqa
        pass
    origin.responses = [x for x in origin.responses if not (x[0].token or b"").startswith(b"w")]
    return out, origin, net


def _judge_equal(out, origin, spec, v, ctx):
    if out.kind != "ok":
        what = f"well-formed response not delivered: {out!r}"
        key = "not-delivered:" + (exc_name(out.exc) if out.kind == "exc" else out.kind)
        v(key, what, ctx)
        return
    status, reason, version, headers, chunks = out.value
    if not origin.responses:
        v("no-ground-truth", "endpoint recorded no response", ctx)
        return
    resp = origin.responses[0][1]
    body = b"".join(chunks)
    exp_body = gen.expected_body(spec, resp)
    if status != resp.status:
        if status in spec["interim"]:
            v("interim-returned-as-final", f"status {status} is an interim response; final was {resp.status}", ctx)
        else:
            v("status-mismatch", f"{status} != {resp.status}", ctx)
    if spec["proto"] == "h1":
        if reason != resp.reason:
            v("reason-mismatch", f"{reason!r} != {resp.reason!r}", ctx)
        want_v = b"HTTP/1.0" if resp.http10 else b"HTTP/1.1"
        if version != want_v:
            v("version-mismatch", f"{version!r} != {want_v!r}", ctx)
    elif version != b"HTTP/2":
        v("version-mismatch", f"{version!r} != b'HTTP/2'", ctx)
    if headers != resp.sent_headers:
        lowered = [(k.lower(), x) for k, x in headers] == [(k.lower(), x) for k, x in resp.sent_headers]
        v("headers-mismatch:" + ("case" if lowered else "content"), f"{headers!r} != {resp.sent_headers!r}", ctx)
    if body != exp_body:
        kind = "shorter" if len(body) < len(exp_body) else ("longer" if len(body) > len(exp_body) else "different")
        v("body-mismatch:" + kind, f"got {len(body)} bytes, expected {len(exp_body)}", ctx)
    if any(len(c) == 0 for c in chunks) and False:
        pass


def _judge_trunc(out, origin, spec, t, wire_len, v, ctx):
    """Truncated at byte t: must raise, or deliver the complete exact response."""
    if out.kind == "hang":
        v("truncation-hang", f"call hangs after the peer closed at byte {t}", ctx)
        return
    if out.kind == "exc":
        if not documented(out.exc):
            v("truncation-undocumented-exception:" + exc_name(out.exc), repr(out.exc), ctx)
        return
    status, reason, version, headers, chunks = out.value
    resp = origin.responses[0][1]
    body = b"".join(chunks)
    exp_body = gen.expected_body(spec, resp)
    if body != exp_body:
        v("truncated-body-returned-silently", f"peer closed at byte {t}/{wire_len}: caller got {len(body)} of "
          f"{len(exp_body)} body bytes and no error", ctx)
    elif status != resp.status or headers != resp.sent_headers:
        v("truncated-head-returned", f"peer closed at byte {t}: head differs and no error", ctx)


def run_case(case):
    spec = case["spec"]
    flavor = case["flavor"]
    r = random.Random(case["seed"])
    viol = []
    cnt = {"responses": 0, "runs": 0, "oracle_equal": 0, "oracle_truncation": 0, "cuts_exhaustive": 0,
           "truncation_raised": 0, "truncation_complete": 0, "bytes_checked": 0}
    sigs = set()
    sample = {}

    def v(key, what, detail):
        if not any(x["key"] == key for x in viol):
            viol.append({"key": key, "what": what, "detail": detail})

    szc = "0" if spec["size"] == 0 else ("small" if spec["size"] < 1000 else "large")
    base_sig = (f"{spec['proto']}|{spec['framing']}|{spec['status'] // 100}xx|{spec['method']}|i{len(spec['interim'])}|{szc}"
                f"|w{spec.get('warm', 0)}|bh{spec.get('big_headers', 0)}")

    async def main():
        # baseline to learn the wire
        out, origin, net = await _one(flavor, spec, Segmentation("all"))
        cnt["responses"] += 1
        cnt["runs"] += 1
        cnt["oracle_equal"] += 1
        ctx = {"spec": spec, "flavor": flavor, "seg": "all"}
        _judge_equal(out, origin, spec, v, ctx)
        sigs.add(base_sig + "|all")
        if not origin.responses:
            return
        wire_len = net.transports[0].produced if net.transports else 0
        resp0 = origin.responses[0][1]
        sample.update({"spec": spec, "flavor": flavor, "wire_len": wire_len,
                       "wire_head": resp0.wire[:120].decode("latin1") if spec["proto"] == "h1" else "h2 frames"})
        segs = [("fixed1", Segmentation("fixed", 1))] if wire_len <= 20000 else [("fixed997", Segmentation("fixed", 997))]
        for i in range(case["n_random"]):
            segs.append(("random", Segmentation("random", rng=random.Random(case["seed"] * 31 + i))))
        warm_len = getattr(net, "hv_warm_len", 0)
        if wire_len - warm_len <= case["max_exhaustive"]:
            for c in range(max(1, warm_len - 2), wire_len):
                segs.append(("cut", Segmentation("cuts", [c])))
        for name, seg in segs:
            out, origin, net = await _one(flavor, spec, seg)
            cnt["runs"] += 1
            cnt["oracle_equal"] += 1
            cnt["bytes_checked"] += wire_len
            if name == "cut":
                cnt["cuts_exhaustive"] += 1
            _judge_equal(out, origin, spec, v, {"spec": spec, "flavor": flavor, "seg": seg.describe()})
            sigs.add(base_sig + "|" + name)
        # truncation
        if spec["framing"] in ("close", "http10") and spec["proto"] == "h1":
            return
        if spec["proto"] == "h1":
            if wire_len <= case["max_exhaustive"]:
                points = list(range(0, wire_len))
            else:
                points = sorted(set(r.randrange(wire_len) for _ in range(12)))
            for t in points:
                out, origin, net = await _one(flavor, spec, Segmentation("all"), truncate=t)
                cnt["runs"] += 1
                cnt["oracle_truncation"] += 1
                if out.kind == "exc":
                    cnt["truncation_raised"] += 1
                elif out.kind == "ok":
                    cnt["truncation_complete"] += 1
                if origin.responses:
                    _judge_trunc(out, origin, spec, t, wire_len, v, {"spec": spec, "flavor": flavor, "truncate": t})
            sigs.add(base_sig + "|trunc")
        else:
            body_len = len(gen.expected_body(spec, resp0))
            if body_len:
                pts = sorted(set([0, 1, body_len - 1] + [r.randrange(body_len) for _ in range(4)]))
                for t in pts:
                    for how in ("rst:2", "rst:0", "rst:8", "close", "close-wok"):
                        out, origin, net = await _one(flavor, spec, Segmentation("all"), truncate=t, trunc_how=how)
                        cnt["runs"] += 1
                        cnt["oracle_truncation"] += 1
                        if out.kind == "exc":
                            cnt["truncation_raised"] += 1
                        elif out.kind == "ok":
                            cnt["truncation_complete"] += 1
                        if origin.responses:
                            _judge_trunc(out, origin, spec, t, body_len, v,
                                         {"spec": spec, "flavor": flavor, "truncate": t, "how": how})
                sigs.add(base_sig + "|trunc")

    run_flavor(flavor, None, main, seed=case["seed"])
    return {"viol": viol, "counters": cnt, "sigs": sorted(sigs), "sample": sample or None}


def plan(tier, seed):
    r = random.Random(seed * 7919 + 2)
    cases = []
    if tier == "quick":
        n_small, n_large, n_random, max_ex = 180, 40, 4, 400
    else:
        n_small, n_large, n_random, max_ex = 3000, 600, 20, 600
    flavors = ["asyncio", "trio", "sync"]
    i = 0
    for k in range(n_small):
        proto = "h2" if k % 3 == 2 else "h1"
        spec = gen.gen_response_spec(r, proto, small=True)
        cases.append({"spec": spec, "flavor": flavors[i % 3], "seed": r.randrange(1 << 30), "n_random": n_random,
                      "max_exhaustive": max_ex})
        i += 1
    for k in range(n_large):
        proto = "h2" if k % 2 else "h1"
        spec = gen.gen_response_spec(r, proto, small=False)
        cases.append({"spec": spec, "flavor": flavors[i % 3], "seed": r.randrange(1 << 30), "n_random": 2,
                      "max_exhaustive": max_ex})
        i += 1
    return cases
