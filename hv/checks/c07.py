"""C07 — waiting requests make progress whenever capacity exists.

O1 quiescence oracle: whenever the runtime has nothing runnable and repr(pool) reports
queued requests, the pool must be at its limit, hold no idle connection, and hold no
connection that could take a queued request. O2 bounded progress: against endpoints that
answer every request, every caller terminates before the virtual watchdog."""
from __future__ import annotations

import random

from ..workload import Workload, gen_spec
from ..world import run_flavor, pool_counts
from .c01 import fingerprint

ID = "C07"
LEVEL = "exploration"
RULE = ("seeded workloads: 2-8 callers, 1-3 origins, max_connections 1-2, callers that hold responses for virtual "
        "think time, pool timeouts shorter/longer than the holders, cancellations while queued (at the caller's own k-th suspension point, and from outside: another caller cancels "
        "it - task.cancel() / cancel scope - in the very step in which its own request ended), caller-side upload bugs, the "
        "'maybe HTTP/2 turned out HTTP/1.1' re-queue, HTTP/2 stream-slot waits; O1 evaluated at every instant at which "
        "the event loop / trio scheduler has nothing runnable; distinct+non-trivial = new interleaving fingerprint "
        "with at least one quiescent instant that had queued requests")
ASSUMPTIONS = ["unbounded 'eventually' restated as: no serviceable waiter survives to a quiescent instant, and every "
               "caller terminates before a 1e5 s virtual watchdog", "queued requests' origins are read from pool._requests "
               "(anchored state); the first two clauses need only the public API"]
REQUIRED = ["workloads", "quiescent_instants", "quiescent_with_queue", "oracle_o1", "oracle_o2"]


class Quiescence:
    def __init__(self, wl: Workload) -> None:
        self.wl = wl
        self.instants = 0
        self.with_queue = 0
        self.viol = []

    def _assigned(self, conn) -> bool:
        reqs = getattr(self.wl.pool, "_requests", None) or []
        return any(getattr(pr, "connection", None) is conn for pr in reqs)

    def __call__(self) -> None:
        wl = self.wl
        pool = wl.pool
        self.instants += 1
        c = pool_counts(pool)
        if not c.get("req_queued"):
            return
        self.with_queue += 1
        conns = pool.connections
        N = wl.spec["max_connections"]
        live = [x for x in conns if not x.is_closed()]
        det = {"t": wl.net.now(), "pool": c, "conns": [x.info() for x in conns], "limit": N}
        via = wl.spec.get("proxy") or "direct"
        if len(live) < N and len(self.viol) < 3:
            self.viol.append((f"waiter-although-below-limit:{via}", det))
        elif any(x.is_idle() and not self._assigned(x) for x in conns) and len(self.viol) < 3:
            # (an idle connection that has a request assigned - about to be used, or still finishing the close of its
            # response - cannot be evicted)
            self.viol.append((f"waiter-although-idle-connection:{via}", det))
        else:
            reqs = getattr(pool, "_requests", None)
            if reqs is not None:
                for pr in reqs:
                    if pr.is_queued():
                        origin = pr.request.url.origin
                        able = [x for x in conns if x.can_handle_request(origin) and x.is_available()]
                        if able and len(self.viol) < 3:
                            proto = "h2" if "HTTP/2" in able[0].info() else ("h1" if "HTTP/1.1" in able[0].info() else "connecting")
                            self.viol.append((f"waiter-although-available-connection:{via}:{proto}", dict(det, origin=str(origin))))
                            break


async def run_early(flavor, p, cnt, v, sigs):
    """The server answers an upload before the body is complete (413, END_STREAM, optionally RST_STREAM(NO_ERROR)) and
    gives no more flow-control credit: the request has been answered, so its caller must come back - with the response
    or with a documented error - and not wait for credit that will never come."""
    from .. import simnet, endpoints
    from ..world import mk_pool, API, guarded, documented, exc_name
    net = simnet.Net()
    net.log_events = False
    nth = p["nth"]
    script = {"settings": {3: 100, 4: p["iws"]}, "win": p["win"],
              "actions": [{"when": ("head", nth), "do": "early", "rst": p["rst"], "status": 413}]}
    origin = endpoints.Origin(net, "o.test", 443, tls=True, alpn=["h2"], h2_script=script)
    pool = mk_pool(flavor, net, http2=True, max_connections=1)
    api = API(flavor, pool, net)

    async def scen():
        res = []
        for i in range(nth + 1):
            big = i == nth
            body = api.body([b"u" * 3000] * (p["chunks"] if big else 0)) if big else None
            try:
                r_ = await api.request("POST" if big else "GET", "https://o.test/e", headers=[("X-Token", f"e{i}")], content=body)
                res.append(("ok", r_.status))
            except Exception as exc:  # noqa
                res.append(("exc", exc))
        # and the connection (or a new one) still serves
        r2 = await api.request("GET", "https://o.test/after", headers=[("X-Token", "after")])
        res.append(("ok", r2.status))
        return res

    out = await guarded(flavor, scen)
    cnt["early_answer_runs"] = cnt.get("early_answer_runs", 0) + 1
    cnt["oracle_o2"] += 1
    sigs.add(f"early|{flavor}|{p}")
    ctx = {"params": p, "flavor": flavor}
    if out.kind == "hang":
        v("o2:answered-upload-blocked-forever" + (":rst" if p["rst"] else ""), "the server answered the upload early (413) and gives no more "
          "credit; the caller waits for flow-control credit for ever", ctx)
    elif out.kind != "ok":
        v("early-answer-harness", repr(out), ctx)
    else:
        kind, val = out.value[nth]
        if kind == "exc" and not documented(val):
            v("early-answer-undocumented-exception:" + exc_name(val), repr(val), ctx)
        elif kind == "ok" and val != 413:
            v("early-answer-wrong-response", f"status {val}", ctx)
        if out.value[-1] != ("ok", 200):
            v("request-after-early-answer-failed", repr(out.value[-1]), ctx)
    await guarded(flavor, api.close_pool)


def run_case(case):
    if case.get("early"):
        viol, cnt, sigs = [], {"workloads": 0, "quiescent_instants": 0, "quiescent_with_queue": 0, "oracle_o1": 0, "oracle_o2": 0,
                               "callers_terminated": 0, "pool_timeouts": 0, "requests": 0, "external_cancellations": 0}, set()

        def v_(key, what, detail):
            if not any(x["key"] == key for x in viol):
                viol.append({"key": key, "what": what, "detail": detail})

        async def main_():
            for p in case["early"]:
                await run_early(case["flavor"], p, cnt, v_, sigs)
        run_flavor(case["flavor"], None, main_, seed=case["seed"])
        return {"viol": viol, "counters": cnt, "sigs": sorted(sigs), "sample": None}
    viol = []
    cnt = {"workloads": 0, "quiescent_instants": 0, "quiescent_with_queue": 0, "oracle_o1": 0, "oracle_o2": 0,
           "callers_terminated": 0, "pool_timeouts": 0, "requests": 0, "external_cancellations": 0}
    sigs = set()
    sample = {}

    def v(key, what, detail):
        if not any(x["key"] == key for x in viol):
            viol.append({"key": key, "what": what, "detail": detail})

    cur = {"q": None}

    def on_idle():
        q = cur["q"]
        if q is not None:
            q()

    async def main():
        for spec in case["specs"]:
            wl = Workload(spec)
            wl.net.log_events = False
            q = Quiescence(wl)
            cur["q"] = q
            out = await wl.run()
            cur["q"] = None
            cnt["workloads"] += 1
            cnt["requests"] += len(wl.records)
            cnt["external_cancellations"] += wl.snipes_fired
            cnt["quiescent_instants"] += q.instants
            cnt["quiescent_with_queue"] += q.with_queue
            cnt["oracle_o1"] += q.with_queue
            cnt["oracle_o2"] += 1
            cnt["pool_timeouts"] += sum(1 for r in wl.records if type(r.get("exc")).__name__ == "PoolTimeout")
            for key, det in q.viol:
                v("o1:" + key, f"at a quiescent instant: {key}: {det}", {"spec": spec, "detail": det})
            if out.kind == "hang":
                unfinished = [r["token"] for r in wl.records if "end" not in r]
                v("o2:callers-blocked-forever", f"callers never terminated (virtual watchdog); unfinished requests "
                  f"{unfinished[:6]}; pool {wl.pool!r}", {"spec": spec, "unfinished": unfinished[:10],
                                                           "conns": [x.info() for x in wl.pool.connections]})
            else:
                cnt["callers_terminated"] += spec["n_callers"]
            if q.with_queue:
                sigs.add(fingerprint(wl.net))
                if not sample:
                    sample.update({"spec": spec, "quiescent_instants": q.instants, "with_queued_requests": q.with_queue})
            try:
                await wl.api.close_pool()
            except Exception:  # noqa
                pass

    run_flavor(case["flavor"], None, main, seed=case["seed"], on_idle=on_idle)
    return {"viol": viol, "counters": cnt, "sigs": sorted(sigs), "sample": sample or None}


def plan(tier, seed):
    r = random.Random(seed * 307 + 7)
    n_cases, per = (64, 40) if tier == "quick" else (640, 150)
    cases = []
    n_settings_specs = [0]
    for i in range(n_cases):
        flavor = ["asyncio", "trio"][i % 2]
        specs = []
        for _ in range(per):
            kind = r.random()
            over = dict(max_connections=r.choice([1, 1, 2]), n_callers=r.randint(2, 8), n_origins=r.choice([1, 2, 3]),
                        think=r.choice([0.0, 0.3, 1.0]), pool_timeout=r.choice([None, 0.2, 2.0, 50.0]),
                        resp_delay=r.choice([0.0, 0.1, 1.0]))
            if kind < 0.25:
                # 'maybe HTTP/2' connection that turns out HTTP/1.1: several requests get re-queued
                over.update(proto="h1tls", proxy=r.choice([None, "socks", "tun"]), pool_kw={"http2": True})
            elif kind < 0.45:
                over.update(proto="h2", proxy=None, h2_settings={3: r.choice([1, 2, 3])})  # MAX_CONCURRENT_STREAMS
                if r.random() < 0.5:
                    # the server lowers its stream limit (below what is in flight) at the head of one of the first requests
                    # of a connection, and may raise it again later: requests that wait for a stream slot meanwhile must
                    # get one when the streams in flight finish
                    first = r.choice([3, 4, 6])
                    acts = [{"when": ["head", r.randrange(1, first)], "do": "settings", "settings": {"3": r.choice([1, 1, 2])}}]
                    if r.random() < 0.4:
                        acts.append({"when": ["end", r.randrange(first, first + 4)], "do": "settings", "settings": {"3": r.choice([3, 10])}})
                    over.update(h2_settings={3: first}, h2_script={"actions": acts}, n_origins=1, max_connections=1,
                                n_callers=r.randint(4, 8), resp_delay=r.choice([0.1, 1.0]), think=r.choice([0.0, 0.3]))
                    n_settings_specs[0] += 1
            specs.append(gen_spec(r, flavor, **over))
        cases.append({"flavor": flavor, "specs": specs, "seed": r.randrange(1 << 30)})
    for flavor in ("asyncio", "trio", "sync"):
        ps = [{"nth": nth, "iws": iws, "win": win, "rst": rst, "chunks": ch}
              for nth in (0, 1) for iws in (1000, 65535) for win in ("none", "auto") for rst in (False, True) for ch in (2, 30)]
        cases.append({"flavor": flavor, "early": ps, "seed": r.randrange(1 << 30)})
    return cases
