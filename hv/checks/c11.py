"""C11 — proxy hops see exactly what is meant for them. Wire oracle inside the simulated
HTTP proxy (forward + CONNECT) and SOCKS5 proxy: marker strings in caller headers/body,
proxy headers and credentials must appear only where they belong, the CONNECT / SOCKS
request must name exactly the origin, and after any refusal nothing more may be written."""
from __future__ import annotations

import base64
import random

from .. import REPO  # noqa: F401
import httpcore

from .. import simnet, endpoints
from ..endpoints import Resp
from ..simnet import CALL
from ..world import mk_pool, API, run_flavor, guarded, exc_name

ID = "C11"
LEVEL = "exploration"
RULE = ("proxy kind {http forward, http tunnel, https proxy tunnel/forward, socks5, socks5h} x credentials {none, user/pass} x "
        "custom proxy headers (incl. names colliding case-insensitively with request headers) x origin scheme/host/port x "
        "seeded request headers and bodies carrying marker strings x proxy replies (CONNECT statuses 200,201,204,299,300,"
        "301,400,403,404,407,500,502,503,599; SOCKS reply codes 0-9,255; method replies 0,2,255 and a method not offered; "
        "auth status 0/1/255) x {Proxy object, legacy HTTPProxy/SOCKSProxy classes} x flavours; distinct+non-trivial = "
        "(kind, creds?, collision?, reply, api, flavour)")
ASSUMPTIONS = ["the harness SOCKS5 endpoint parses RFC 1928/1929 by hand (no socksio); the HTTP proxy uses the harness parser"]
REQUIRED = ["cases", "oracle_forward", "oracle_connect", "oracle_tunnel_inner", "oracle_socks", "oracle_refusal",
            "refusals_http", "refusals_socks"]

REQ = b"REQMARK"
BODY = b"BODYMARK"
PROXY = b"PROXYMARK"
USER, PW = b"credUSER", b"credPASS"
B64 = base64.b64encode(USER + b":" + PW)

CONNECT_STATUSES = [200, 201, 204, 299, 300, 301, 400, 403, 404, 407, 500, 502, 503, 599]


def lower_names(hs):
    return [k.lower() for k, _ in hs]


def merge(default, override):
    names = set(lower_names(override))
    return [(k, x) for k, x in default if k.lower() not in names] + list(override)


def gen_case(r: random.Random):
    kind = r.choice(["http", "http", "https", "socks5", "socks5h"])
    scheme = r.choice(["http", "https"])
    c = {
        "kind": kind, "scheme": scheme,
        "host": r.choice(["o.test", "other-origin.test", "10.1.2.3", "o.test", "::1", "2001:db8::5", "o.test.", "127.1"]),
        # per-request extensions that concern the origin hop only
        "sni": r.choice([None, None, "front.cdn.test"]),
        "target_ext": r.choice([None, None, None, "/ext/target?y=2"]),
        "port": r.choice([None, None, 8081]),
        "creds": r.random() < 0.5,
        "legacy": r.random() < 0.3,
        "collide": r.random() < 0.5,
        "n_req_headers": r.randint(0, 4),
        "body": r.choice([None, "bytes", "iter"]),
        "hseed": r.randrange(1 << 30),
    }
    if kind in ("http", "https"):
        c["reply"] = r.choice(CONNECT_STATUSES + [200] * 10)
    else:
        x = r.random()
        if x < 0.5:
            c["reply"] = ("ok",)
        elif x < 0.75:
            c["reply"] = ("code", r.choice([1, 2, 3, 4, 5, 6, 7, 8, 9, 255]))
        elif x < 0.9:
            c["reply"] = ("method", r.choice([0, 1, 2, 255]))
        else:
            c["reply"] = ("auth", r.choice([1, 255]))
    return c


async def run_one(flavor, c, cnt, v):
    r = random.Random(c["hseed"])
    net = simnet.Net()
    tls = c["scheme"] == "https"
    port = c["port"] or (443 if tls else 80)
    origin = endpoints.Origin(net, c["host"], port, tls=tls, alpn=["http/1.1"], register=False)
    kind = c["kind"]
    proxy_headers = []
    if kind in ("http", "https"):
        proxy_headers = [(b"X-Proxy-Trace", PROXY + b"-1"), (b"Via-Custom", PROXY + b"-2")]
        if c["collide"]:
            proxy_headers += [(b"X-Shared", PROXY + b"-shared"), (b"User-Agent", PROXY + b"-agent")]
    req_headers = [(f"X-R{i}".encode(), REQ + b"-%d" % r.randrange(1000)) for i in range(c["n_req_headers"])]
    if c["collide"]:
        req_headers += [(b"x-shared", REQ + b"-shared"), (b"USER-AGENT", REQ + b"-agent")]
    auth = (USER, PW) if c["creds"] else None
    px = None
    if kind in ("http", "https"):
        status = c["reply"]

        def connect_reply(target, req):
            if status == 200:
                return Resp(200, b"Connection established", [], b"", framing="none")
            if 200 <= status < 300:
                return Resp(status, b"Tunnel", [(b"X-Px", b"1")], b"", framing="none")
            reason = r.choice([b"Nope", b"Nope", b"", b"Acc\xe8s refus\xe9", b"\xe2\x9b\x94 denied", b"Bad Gatewa\xf9", b"Proxy  Says   No"])
            return Resp(status, reason, [(b"X-Px", b"1")], b"refused-by-proxy", conn_close=r.random() < 0.5)
        px = endpoints.HTTPProxy(net, "proxy.test", 3128, tls=kind == "https", origins=[origin], connect_reply=connect_reply)
        pcfg = {"url": f"{kind}://proxy.test:3128", "auth": auth, "headers": proxy_headers}
    else:
        script = {}
        rep = c["reply"]
        if rep[0] == "code":
            script["reply_code"] = rep[1]
        elif rep[0] == "method":
            script["method_reply"] = rep[1]
        elif rep[0] == "auth":
            script["auth_reply"] = rep[1]
        px = endpoints.Socks5Proxy(net, "socks.test", 1080, origins=[origin], auth=auth, script=script)
        pcfg = {"url": f"{kind}://socks.test:1080", "auth": auth}
    pool = mk_pool(flavor, net, proxy=pcfg, legacy_proxy=c["legacy"])
    api = API(flavor, pool, net)
    uhost = f"[{c['host']}]" if ":" in c["host"] else c["host"]   # IPv6 literals are bracketed in URLs and authorities
    hostport = uhost if c["port"] is None else f"{uhost}:{port}"
    url = f"{c['scheme']}://{hostport}/path?x=1"
    ext = {}
    if c.get("sni"):
        ext["sni_hostname"] = c["sni"]
    if c.get("target_ext"):
        ext["target"] = c["target_ext"].encode()
    body_parts = [BODY + b"-a" * 50, BODY + b"-b" * 20]
    content = None if c["body"] is None else (b"".join(body_parts) if c["body"] == "bytes" else api.body(body_parts))
    CALL.set("r0")
    out = await guarded(flavor, lambda: api.request("POST" if c["body"] else "GET", url,
                                                    headers=[(b"X-Token", b"r0")] + req_headers, content=content,
                                                    extensions=ext))
    ctx = {"case": c, "flavor": flavor, "outcome": repr(out)}
    cnt["cases"] += 1
    expect_ok = True
    if kind in ("http", "https"):
        tunnel = tls
        if tunnel:
            cnt["oracle_connect"] += 1
            if not px.connects:
                v("no-connect-sent", "https origin through an HTTP proxy without CONNECT", ctx)
            else:
                rec = px.connects[0]
                want_target = f"{uhost}:{port}".encode()
                if rec["target"] != want_target:
                    v("connect-target-wrong", f"CONNECT {rec['target']!r}, expected {want_target!r}", ctx)
                hs = rec["headers"]
                exp_default = [(b"Host", want_target), (b"Accept", b"*/*")]
                exp_proxy = ([(b"Proxy-Authorization", b"Basic " + B64)] if auth else []) + proxy_headers
                exp = merge(exp_default, exp_proxy)
                hosts = [x for x in exp if x[0].lower() == b"host"]
                rest = [x for x in exp if x[0].lower() != b"host"]
                if hs != exp and hs != hosts + rest:
                    v("connect-headers-wrong", f"CONNECT headers {hs!r}, expected {exp!r}", ctx)
                raw = rec["raw"]
                if REQ in raw or BODY in raw:
                    v("caller-data-in-connect", f"caller header/body marker found in the CONNECT bytes: {raw[:300]!r}", ctx)
                if not raw.startswith(b"CONNECT " + want_target + b" HTTP/1.1\r\n"):
                    v("connect-request-line-wrong", repr(raw[:80]), ctx)
                if auth and (b"Proxy-Authorization", b"Basic " + B64) not in hs:
                    v("credentials-missing-on-connect", repr(hs), ctx)
            status = c["reply"]
            if not 200 <= status < 300:
                expect_ok = False
                cnt["oracle_refusal"] += 1
                cnt["refusals_http"] += 1
                if out.kind != "exc" or not isinstance(out.exc, httpcore.ProxyError):
                    v(f"connect-refusal-not-proxyerror:{status}", f"CONNECT answered {status}: {out!r}", ctx)
                pc = px.conns[0] if px.conns else None
                if pc is not None and pc.bytes_after_refusal:
                    v("bytes-after-connect-refusal", f"{pc.bytes_after_refusal} bytes written after the {status} reply", ctx)
                if origin.requests:
                    v("origin-request-after-connect-refusal", "origin saw a request although CONNECT was refused", ctx)
            else:
                cnt["oracle_tunnel_inner"] += 1
                for req in origin.requests:
                    blob = b"\r\n".join(k + b": " + x for k, x in req.headers) + bytes(req.body)
                    for mark, name in ((PROXY, "proxy-header"), (B64, "credentials-b64"), (USER, "credentials"), (PW, "credentials")):
                        if mark in blob:
                            v(f"proxy-data-inside-tunnel:{name}", f"{name} marker found in the tunnelled request", ctx)
                    if any(k.lower() == b"proxy-authorization" for k, _ in req.headers):
                        v("proxy-data-inside-tunnel:proxy-authorization", "Proxy-Authorization header inside the tunnel", ctx)
        else:
            cnt["oracle_forward"] += 1
            if px.connects:
                v("connect-for-plain-http", "plain http origin was tunnelled", ctx)
            if not px.forwards:
                v("nothing-forwarded", repr(out), ctx)
            else:
                req = px.forwards[0]
                want_target = f"http://{hostport}{c.get('target_ext') or '/path?x=1'}".encode()
                if req.target != want_target:
                    v("forward-target-not-absolute-url", f"{req.target!r} != {want_target!r}", ctx)
                dflt_host = uhost.encode() if c["port"] is None else hostport.encode()
                caller = [(b"Host", dflt_host), (b"X-Token", b"r0")] + req_headers
                if c["body"] == "bytes":
                    caller.append((b"Content-Length", b"%d" % len(b"".join(body_parts))))
                elif c["body"] == "iter":
                    caller.append((b"Transfer-Encoding", b"chunked"))
                exp_proxy = ([(b"Proxy-Authorization", b"Basic " + B64)] if auth else []) + proxy_headers
                exp = merge(exp_proxy, caller)
                hosts = [x for x in exp if x[0].lower() == b"host"]
                rest = [x for x in exp if x[0].lower() != b"host"]
                if req.headers != exp and req.headers != hosts + rest:
                    got_names, exp_names = lower_names(req.headers), lower_names(hosts + rest)
                    mech = "override" if sorted(got_names) != sorted(exp_names) else "order-or-value"
                    v(f"forward-headers-wrong:{mech}", f"forwarded headers {req.headers!r}, expected {hosts + rest!r}", ctx)
                if c["body"] and bytes(req.body) != b"".join(body_parts):
                    v("forward-body-wrong", f"{len(req.body)} bytes", ctx)
    else:
        cnt["oracle_socks"] += 1
        sess = px.sessions[0] if px.sessions else None
        rep = c["reply"]
        if sess is None:
            v("no-socks-session", repr(out), ctx)
        else:
            want_methods = [2] if auth else [0]
            if sess["methods"] != want_methods:
                v("socks-methods-offered", f"offered {sess['methods']}, expected exactly {want_methods}", ctx)
            method_ok = not (rep[0] == "method" and rep[1] != want_methods[0])
            auth_ok = not (rep[0] == "auth") or not auth
            if auth and method_ok:
                if sess["userpass"] != (USER, PW):
                    v("socks-credentials-wrong", f"{sess['userpass']!r}", ctx)
            if not auth and sess["userpass"] is not None:
                v("socks-credentials-sent-without-auth", f"{sess['userpass']!r}", ctx)
            code = rep[1] if rep[0] == "code" else 0
            reached_request = method_ok and auth_ok
            if reached_request:
                rq = sess["request"]
                if rq is None:
                    v("socks-no-connect-request", repr(out), ctx)
                else:
                    if (rq["host"], rq["port"], rq["cmd"]) != (c["host"], port, 1):
                        v("socks-connect-target-wrong", f"{rq}, expected {c['host']}:{port}", ctx)
            else:
                if sess["request"] is not None:
                    v("socks-connect-after-auth-refusal", f"{sess['request']}", ctx)
            failed = (not reached_request) or code != 0
            if failed:
                expect_ok = False
                cnt["oracle_refusal"] += 1
                cnt["refusals_socks"] += 1
                if out.kind != "exc" or not isinstance(out.exc, httpcore.ProxyError):
                    v(f"socks-refusal-not-proxyerror:{rep[0]}:{rep[1] if len(rep) > 1 else ''}", f"{out!r}", ctx)
                if sess["extra_bytes"]:
                    v("bytes-after-socks-refusal", f"{sess['extra_bytes']} bytes written after the refusal", ctx)
                if origin.requests:
                    v("origin-request-after-socks-refusal", "origin saw a request", ctx)
            else:
                cnt["oracle_tunnel_inner"] += 1
                for req in origin.requests:
                    blob = b"\r\n".join(k + b": " + x for k, x in req.headers) + bytes(req.body)
                    if USER in blob or PW in blob or B64 in blob:
                        v("proxy-data-inside-tunnel:socks-credentials", "credentials inside the tunnelled request", ctx)
            # zero HTTP bytes before the success reply: the endpoint flags bytes that trail the request
            for a in px.anomalies:
                if a["kind"] in ("bytes-pipelined-with-socks-request", "tls-before-socks-success", "bytes-after-socks-failure"):
                    v("http-bytes-before-socks-success:" + a["kind"], repr(a), ctx)
    if expect_ok and (out.kind != "ok" or out.value.status != 200):
        v(f"request-failed:{kind}:{exc_name(out.exc) if out.kind == 'exc' else out.kind}", f"{out!r}", ctx)
    elif expect_ok:
        # the origin must have received exactly the caller's request
        if len(origin.requests) != 1:
            v("origin-request-count", f"{len(origin.requests)} requests reached the origin", ctx)
        elif c["body"] and bytes(origin.requests[0].body) != b"".join(body_parts):
            v("origin-body-wrong", f"{len(origin.requests[0].body)} bytes", ctx)
        elif "target" in ext and not (kind in ("http", "https") and not tls) and origin.requests[0].target != ext["target"]:
            v("origin-target-wrong", f"{origin.requests[0].target!r} != {ext['target']!r}", ctx)
        if tls and origin.requests:
            want_sni = c.get("sni") or c["host"]
            info = origin.requests[0].tls_info or {}
            if info.get("sni") != want_sni:
                v("origin-sni-wrong", f"TLS to the origin named {info.get('sni')!r}, expected {want_sni!r}", ctx)
    # a second request on the same pool (and, in forward mode, on the same proxy connection) that overrides nothing: the
    # proxy hop must see the configured proxy headers and credentials again, whatever the first request overrode
    if expect_ok and out.kind == "ok" and kind in ("http", "https"):
        cnt["oracle_followup"] += 1
        CALL.set("r1")
        out2 = await guarded(flavor, lambda: api.request("GET", url, headers=[(b"X-Token", b"r1")]))
        ctx2 = dict(ctx, followup=repr(out2))
        if out2.kind != "ok" or out2.value.status != 200:
            v(f"followup-failed:{kind}:{exc_name(out2.exc) if out2.kind == 'exc' else out2.kind}", repr(out2), ctx2)
        elif not tls:
            if len(px.forwards) < 2:
                v("followup-not-forwarded", f"{len(px.forwards)} forwarded requests", ctx2)
            else:
                req2 = px.forwards[1]
                exp_proxy = ([(b"Proxy-Authorization", b"Basic " + B64)] if auth else []) + proxy_headers
                dflt_host = uhost.encode() if c["port"] is None else hostport.encode()
                exp2 = merge(exp_proxy, [(b"Host", dflt_host), (b"X-Token", b"r1")])
                hosts2 = [x for x in exp2 if x[0].lower() == b"host"]
                rest2 = [x for x in exp2 if x[0].lower() != b"host"]
                if req2.headers != exp2 and req2.headers != hosts2 + rest2:
                    missing = [k for k, _ in exp_proxy if k.lower() not in lower_names(req2.headers)]
                    mech = "proxy-headers-missing" if missing else "order-or-value"
                    v(f"followup-forward-headers-wrong:{mech}", f"second forwarded request carried {req2.headers!r}, expected "
                      f"{hosts2 + rest2!r}", ctx2)
        else:
            for req in origin.requests:
                blob = b"\r\n".join(k + b": " + x for k, x in req.headers) + bytes(req.body)
                if PROXY in blob or B64 in blob:
                    v("proxy-data-inside-tunnel:followup", "proxy marker in the second tunnelled request", ctx2)
    await guarded(flavor, api.close_pool)
    reply = c["reply"] if not isinstance(c["reply"], (list, tuple)) else ":".join(map(str, c["reply"]))
    return f"{kind}|{c['scheme']}|creds{int(c['creds'])}|coll{int(c['collide'])}|{reply}|legacy{int(c['legacy'])}|{flavor}"


def run_case(case):
    flavor = case["flavor"]
    viol = []
    cnt = {k: 0 for k in ["cases", "oracle_forward", "oracle_connect", "oracle_tunnel_inner", "oracle_socks",
                          "oracle_refusal", "refusals_http", "refusals_socks", "oracle_followup"]}
    sigs = set()
    sample = {}

    def v(key, what, detail):
        if not any(x["key"] == key for x in viol):
            viol.append({"key": key, "what": what, "detail": detail})

    async def main():
        r = random.Random(case["seed"])
        if case.get("resend"):
            for mode in ("forward", "tunnel"):
                await run_resend(flavor, mode, cnt, v, sigs)
            return
        for _ in range(case["n"]):
            c = gen_case(r)
            sig = await run_one(flavor, c, cnt, v)
            sigs.add(sig)
            if not sample:
                sample.update(c)

    run_flavor(flavor, None, main, seed=case["seed"])
    return {"viol": viol, "counters": cnt, "sigs": sorted(sigs), "sample": sample or None}


async def run_resend(flavor, mode, cnt, v, sigs):
    """The same request passes through the proxy machinery twice: (a) a caller hands one Request object to the pool
    twice; (b) two queued requests are handed the same idle connection to the proxy, one of them is turned away and
    queued again (asyncio / trio). Every head the proxy sees is the one meant for it: absolute-form target of the
    request's own URL (forwarding) or a CONNECT for its origin (tunnel), one Proxy-Authorization, one Host."""
    import anyio
    import base64
    import httpcore
    from .. import simnet, endpoints
    from ..world import mk_pool, API, guarded, is_async
    net = simnet.Net()
    scheme = "http" if mode == "forward" else "https"
    port = 80 if mode == "forward" else 443
    origin = endpoints.Origin(net, "o.test", port, tls=mode != "forward", alpn=["http/1.1"] if mode != "forward" else None, register=False)
    px = endpoints.HTTPProxy(net, "proxy.test", 3128, origins=[origin])
    pool = mk_pool(flavor, net, proxy={"url": "http://proxy.test:3128", "auth": (b"user", b"secret"), "headers": [(b"X-Proxy", b"p")]},
                   max_connections=1)
    api = API(flavor, pool, net)
    cred = b"Basic " + base64.b64encode(b"user:secret")
    outs = {}

    async def send(req):
        if is_async(flavor):
            r_ = await pool.handle_async_request(req)
            await r_.aread()
            await r_.aclose()
        else:
            r_ = pool.handle_request(req)
            r_.read()
            r_.close()
        return r_.status

    async def scen():
        req = httpcore.Request("GET", f"{scheme}://o.test/twice", headers=[("Host", "o.test"), ("X-Token", "t")])
        outs["first"] = await guarded(flavor, lambda: send(req))
        outs["second"] = await guarded(flavor, lambda: send(req))
        if is_async(flavor):
            resp, cm = await api.open("GET", f"{scheme}://o.test/held", headers=[("X-Token", "h")])

            async def q(tok):
                outs[tok] = await guarded(flavor, lambda: api.request("GET", f"{scheme}://o.test/{tok}", headers=[("X-Token", tok)]))
            async with anyio.create_task_group() as tg:
                tg.start_soon(q, "q1")
                tg.start_soon(q, "q2")
                await anyio.sleep(0.5)
                await api.read(resp)
                await api.close(cm)
        return True
    run = await guarded(flavor, scen)
    cnt["resend_runs"] = cnt.get("resend_runs", 0) + 1
    ctx = {"flavor": flavor, "mode": mode, "outcomes": {k: repr(o) for k, o in outs.items()}}
    sigs.add(f"resend|{flavor}|{mode}")
    def status(o):
        return None if o.kind != "ok" else (o.value if isinstance(o.value, int) else getattr(o.value, "status", None))
    if run.kind != "ok" or any(status(o) != 200 for o in outs.values()):
        v(f"resend:request-failed:{mode}", f"{run!r} {ctx['outcomes']}", ctx)
    heads = px.forwards if mode == "forward" else [c_ for c_ in px.connects]
    cnt["oracle_forward" if mode == "forward" else "oracle_connect"] += len(heads)
    for h_ in heads:
        if mode == "forward":
            target, hs = h_.target, list(h_.headers)
            ok_target = target.startswith(b"http://o.test/") and target.count(b"http://") == 1
        else:
            target, hs = h_["target"], list(h_["headers"])
            ok_target = target == b"o.test:443"
        if not ok_target:
            v(f"resend:proxy-request-line-wrong:{mode}", f"the proxy was sent {target!r}", ctx)
        auth = [x for k, x in hs if k.lower() == b"proxy-authorization"]
        hosts = [x for k, x in hs if k.lower() == b"host"]
        xp = [x for k, x in hs if k.lower() == b"x-proxy"]
        if auth != [cred] or xp != [b"p"] or len(hosts) != 1:
            v(f"resend:proxy-headers-wrong:{mode}", f"headers sent to the proxy for {target!r}: {hs!r}", ctx)
    for t_ in net.transports:
        if t_.target != ("proxy.test", 3128):
            v("resend:proxy-bypassed", f"connect_tcp{t_.target}", ctx)
    await guarded(flavor, api.close_pool)


def plan(tier, seed):
    n_cases, n = (48, 60) if tier == "quick" else (480, 250)
    return [{"flavor": ["asyncio", "trio", "sync"][i % 3], "seed": seed * 104729 + i, "n": n} for i in range(n_cases)] + \
        [{"flavor": fl, "seed": seed, "n": 0, "resend": True} for fl in ("asyncio", "trio", "sync")]
