"""C19 — URL, origin and default-header semantics: reference-model monitor.

An RFC 3986 appendix-B splitter written for the harness (no urllib) is run beside
httpcore.URL / Origin / Request on generated inputs; laws are asserted on every sample."""
from __future__ import annotations

import random
import re

from .. import REPO  # noqa: F401
import httpcore
from httpcore._models import include_request_headers  # anchored mechanism (C19 anchors _models.py)

ID = "C19"
LEVEL = "exploration"
RULE = ("seeded generator of absolute URLs (scheme case, reg-name/IPv4/IPv6 hosts, userinfo, ports, "
        "paths with ;params, dot segments, %-escapes, query, fragment; str and bytes; explicit components) "
        "and header lists / content kinds; a case is distinct+non-trivial by its shape tuple "
        "(scheme, host kind, port kind, params?, query?, fragment?, userinfo?, input type, law group)")
ASSUMPTIONS = ["reference splitter = RFC 3986 appendix B regular expression + authority split",
               "explicit-component URLs are generated with origin-form targets only"]
REQUIRED = ["urls", "law_parse", "law_roundtrip", "law_origin", "law_host_header", "law_headers"]

RFC = re.compile(rb"^(([^:/?#]+):)?(//([^/?#]*))?([^?#]*)(\?([^#]*))?(#(.*))?$", re.S)
DEFAULT = {b"http": 80, b"https": 443, b"ws": 80, b"wss": 443}


def ref_split(u: bytes):
    m = RFC.match(u)
    scheme = (m.group(2) or b"").lower()
    auth = m.group(4) or b""
    path = m.group(5) or b""
    query = m.group(7)
    _, _, hostport = auth.rpartition(b"@")
    if hostport.startswith(b"["):
        end = hostport.index(b"]")
        host = hostport[1:end]
        rest = hostport[end + 1:]
        port = rest[1:] if rest.startswith(b":") else b""
    else:
        host, sep, port = hostport.partition(b":")
    target = (path or b"/") + (b"?" + query if query else b"")
    return scheme, host.lower(), (int(port) if port else None), target


UNRESERVED = "abcdefghijklmnopqrstuvwxyzABCDEFGHIJKLMNOPQRSTUVWXYZ0123456789-._~"
SUB = "!$&'()*+,="


def gen_url(r: random.Random):
    shape = {}
    scheme = r.choice(["http", "https", "ws", "wss"])
    shape["scheme"] = scheme
    if r.random() < 0.15:
        scheme = "".join(c.upper() if r.random() < 0.5 else c for c in scheme)
    hk = r.choice(["reg", "reg", "reg", "ipv4", "ipv6", "regcase"])
    if hk == "reg":
        host = ".".join("".join(r.choice("abcxyz019-") for _ in range(r.randint(1, 6))).strip("-") or "h"
                        for _ in range(r.randint(1, 3)))
    elif hk == "regcase":
        host = r.choice(["Example.COM", "WWW.a.Test", "Host"])
    elif hk == "ipv4":
        host = ".".join(str(r.randint(0, 255)) for _ in range(4))
    else:
        host = "[" + r.choice(["::1", "2001:db8::1", "fe80::1:2", "::ffff:1.2.3.4", "2001:DB8:0:0:8:800:200C:417A"]) + "]"
    shape["host"] = hk
    ui = ""
    if r.random() < 0.15:
        ui = r.choice(["user@", "user:pw@", "u%40x:p@", ":@"])
    shape["userinfo"] = bool(ui)
    pk = r.choice(["none", "none", "default", "other", "empty", "cross"])
    dflt = {"http": 80, "https": 443, "ws": 80, "wss": 443}[shape["scheme"]]
    cross = r.choice([p_ for p_ in (21, 80, 443, 1080) if p_ != dflt])  # another scheme's default port
    port = {"none": "", "default": f":{dflt}", "other": f":{r.choice([0, 1, 81, 8080, 8443, 65535, dflt + 1])}",
            "empty": ":", "cross": f":{cross}"}[pk]
    shape["port"] = pk
    nseg = r.randint(0, 4)
    segs = []
    has_params = False
    last_params = False
    for i in range(nseg):
        kind = r.random()
        if kind < 0.1:
            seg = r.choice([".", "..", ""])
        else:
            seg = "".join(r.choice(UNRESERVED + SUB + ":@") if r.random() > 0.1 else r.choice(["%20", "%2F", "%3B", "%41"])
                          for _ in range(r.randint(0, 6)))
        if r.random() < 0.25:
            seg += ";" + "".join(r.choice(UNRESERVED + "=,") for _ in range(r.randint(0, 4)))
            has_params = True
            last_params = i == nseg - 1
        segs.append(seg)
    path = "".join("/" + s for s in segs)
    shape["params"] = "last" if last_params else ("inner" if has_params else "no")
    shape["emptypath"] = path == ""
    q = ""
    qk = r.random()
    if qk < 0.3:
        q = "?" + "".join(r.choice(UNRESERVED + SUB + ":@/?;") for _ in range(r.randint(1, 8)))
    elif qk < 0.4:
        q = "?"
    shape["query"] = "yes" if len(q) > 1 else ("empty" if q else "no")
    f = ""
    if r.random() < 0.2:
        f = "#" + "".join(r.choice(UNRESERVED + "/?#;") for _ in range(r.randint(0, 5)))
    shape["fragment"] = bool(f)
    return f"{scheme}://{ui}{host}{port}{path}{q}{f}", shape


NONASCII = ["\u00e9", "\u263a", "\u00a0", "\u0100", "\u00ff", "\U0001d11e", "\u0080", "\u20ac"]


def run_case(case):
    r = random.Random(case["seed"])
    viol = []
    cnt = {"urls": 0, "law_parse": 0, "law_roundtrip": 0, "law_origin": 0, "law_host_header": 0,
           "law_headers": 0, "law_ascii": 0, "law_content": 0, "law_explicit": 0, "nonascii_sites": 0}
    sigs = set()
    sample = None

    def v(key, what, detail):
        if len(viol) < 40:
            viol.append({"key": key, "what": what, "detail": detail})

    prev = None
    for i in range(case["n"]):
        s, shape = gen_url(r)
        as_bytes = r.random() < 0.5
        arg = s.encode("ascii") if as_bytes else s
        shape["input"] = "bytes" if as_bytes else "str"
        cnt["urls"] += 1
        sigs.add("url:" + "|".join(f"{k}={shape[k]}" for k in sorted(shape)))
        exp = ref_split(s.encode("ascii"))
        try:
            u = httpcore.URL(arg)
        except Exception as exc:  # noqa
            v("parse-raises:" + type(exc).__name__, f"URL({s!r}) raised {exc!r}", {"url": s})
            continue
        got = (u.scheme, u.host, u.port, u.target)
        cnt["law_parse"] += 1
        if sample is None:
            sample = {"url": s, "parsed": repr(u)}
        if got != exp:
            which = [n for n, a, b in zip(("scheme", "host", "port", "target"), got, exp) if a != b]
            mech = "+".join(which)
            if which == ["target"] and shape["params"] == "last":
                mech = "target:last-segment-params-dropped"
            v("parse-mismatch:" + mech, f"URL({s!r}) -> {got!r}, RFC 3986 splitting gives {exp!r}",
              {"url": s, "got": repr(got), "expected": repr(exp)})
        # round trip
        cnt["law_roundtrip"] += 1
        try:
            u2 = httpcore.URL(bytes(u))
            if not (u2 == u):
                mech = "ipv6" if shape["host"] == "ipv6" else "other"
                v("roundtrip-not-equal:" + mech, f"URL(bytes(u)) != u for {s!r}: {bytes(u)!r} -> {u2!r}",
                  {"url": s, "bytes": repr(bytes(u)), "reparsed": repr(u2)})
        except Exception as exc:  # noqa
            mech = "ipv6" if shape["host"] == "ipv6" else "other"
            v("roundtrip-raises:" + mech, f"URL(bytes(u)) raised {exc!r} for {s!r} (bytes={bytes(u)!r})",
              {"url": s, "bytes": repr(bytes(u))})
        # origin law
        cnt["law_origin"] += 1
        o = u.origin
        eff = DEFAULT[exp[0]] if exp[2] is None else exp[2]
        if (o.scheme, o.host, o.port) != (exp[0], exp[1], eff):
            v("origin-mismatch", f"origin of {s!r} is {o.scheme, o.host, o.port}, expected {(exp[0], exp[1], eff)}",
              {"url": s})
        if prev is not None:
            po, pexp = prev
            same = (pexp[0], pexp[1], DEFAULT[pexp[0]] if pexp[2] is None else pexp[2]) == (exp[0], exp[1], eff)
            if (po == o) != same:
                v("origin-equality", f"origin equality {po == o} but component equality {same}", {"url": s})
        # a sibling differing in exactly one component must not be equal; same with explicit default port must
        sib_same = httpcore.URL(f"{shape['scheme']}://{s.split('://', 1)[1].split('@')[-1]}" if False else arg)
        if not (sib_same.origin == o):
            v("origin-self-equality", "origin not equal to itself", {"url": s})
        prev = (o, exp)
        # Host header synthesis
        cnt["law_host_header"] += 1
        hs = include_request_headers([], url=u, content=None)
        host_vals = [val for k, val in hs if k.lower() == b"host"]
        hostpart = exp[1]
        if shape["host"] == "ipv6":
            hostpart = b"[" + hostpart + b"]"
        want = hostpart if exp[2] is None or exp[2] == DEFAULT[exp[0]] else hostpart + b":%d" % exp[2]
        if host_vals != [want]:
            mech = "ipv6-unbracketed" if shape["host"] == "ipv6" else "other"
            v("host-header:" + mech, f"Host for {s!r} is {host_vals!r}, expected {[want]!r}", {"url": s})
        # non-ascii str: every text argument, characters from both sides of U+0100
        if i % 10 == 0:
            cnt["law_ascii"] += 1
            ch = NONASCII[(i // 10) % len(NONASCII)]
            bad = s.replace("://", "://" + ch, 1)
            sites = {
                "url": lambda: httpcore.URL(bad),
                "url-path": lambda: httpcore.URL(s + ch),
                "scheme": lambda: httpcore.URL(scheme="http" + ch, host="h", port=None, target="/"),
                "host": lambda: httpcore.URL(scheme="http", host="h" + ch, port=None, target="/"),
                "target": lambda: httpcore.URL(scheme="http", host="h", port=None, target="/" + ch),
                "method": lambda: httpcore.Request("GE" + ch, u),
                "header-name": lambda: httpcore.Request("GET", u, headers=[("X-" + ch, "v")]),
                "header-value": lambda: httpcore.Request("GET", u, headers=[("X-A", "v" + ch)]),
                "header-map-value": lambda: httpcore.Request("GET", u, headers={"X-A": ch}),
                "response-header-value": lambda: httpcore.Response(200, headers=[("X-A", ch)]),
            }
            for site, fn in sites.items():
                cnt["nonascii_sites"] += 1
                rng_ = "latin1" if ord(ch) < 0x100 else "wide"
                try:
                    fn()
                    v(f"nonascii-accepted:{site}:{rng_}", f"{site} with {ch!r} (U+{ord(ch):04X}) accepted", {"url": s, "char": ch})
                except TypeError:
                    pass
                except Exception as exc:  # noqa
                    v(f"nonascii-wrong-exception:{site}:{type(exc).__name__}", f"{site} with {ch!r} raised {exc!r}",
                      {"url": s, "char": ch})
        # explicit components
        if i % 5 == 0:
            cnt["law_explicit"] += 1
            tgt = exp[3]
            ue = httpcore.URL(scheme=exp[0], host=exp[1] if shape["host"] != "ipv6" else exp[1], port=exp[2], target=tgt)
            if (ue.scheme, ue.host, ue.port, ue.target) != (exp[0], exp[1], exp[2], tgt):
                v("explicit-not-verbatim", "explicit components altered", {"url": s})
            try:
                if not (httpcore.URL(bytes(ue)) == ue) and shape["host"] != "ipv6" and shape["params"] != "last":
                    v("roundtrip-explicit", f"explicit URL does not round-trip: {bytes(ue)!r}", {"url": s})
            except Exception as exc:  # noqa
                if shape["host"] != "ipv6":
                    v("roundtrip-explicit-raises", f"{exc!r}", {"url": s})
        # headers: order, duplicates, mapping/sequence, str/bytes
        if i % 7 == 0:
            cnt["law_headers"] += 1
            names = [r.choice(["Accept", "X-A", "x-a", "Cookie", "HOST", "Content-Length", "Transfer-Encoding", "X-B"])
                     for _ in range(r.randint(0, 6))]
            seq = [(n if r.random() < 0.5 else n.encode(), f"v{j}" if r.random() < 0.5 else f"v{j}".encode())
                   for j, n in enumerate(names)]
            req = httpcore.Request("GET", u, headers=seq)
            want_h = [(k.encode() if isinstance(k, str) else k, val.encode() if isinstance(val, str) else val)
                      for k, val in seq]
            if req.headers != want_h:
                v("headers-not-preserved", f"{req.headers!r} != {want_h!r}", {"headers": repr(seq)})
            sigs.add("hdr:%d:%s" % (len(names), ",".join(sorted(set(n.lower() for n in names)))))
            # the list the caller handed over stays the caller's: what the library adds (Host, Content-Length) goes into a
            # list of its own (the two steps below are what request() / stream() do with the caller's headers)
            mine = list(want_h)
            req2 = httpcore.Request("POST", u, headers=mine)
            include_request_headers(req2.headers, url=u, content=b"abc")
            cnt["law_caller_list"] = cnt.get("law_caller_list", 0) + 1
            if mine != want_h:
                v("caller-header-list-mutated", f"{mine!r} was {want_h!r}", {"headers": repr(want_h)})
            # defaults
            cnt["law_content"] += 1
            lower = [k.lower() for k, _ in want_h]
            for kind in ("none", "bytes", "iter"):
                content = {"none": None, "bytes": b"abc", "iter": iter([b"a", b"bc"])}[kind]
                out = include_request_headers(list(want_h), url=u, content=content)
                outl = [k.lower() for k, _ in out]
                if b"host" in lower:
                    if outl.count(b"host") != lower.count(b"host"):
                        v("host-added-though-supplied", repr(out), {})
                elif outl.count(b"host") != 1:
                    v("host-not-synthesised", repr(out), {})
                if [x for x in out if x[0].lower() != b"host" or x in want_h][:0]:
                    pass
                rest = [x for x in out if x in want_h]
                if rest != want_h:
                    v("default-headers-reordered", f"{out!r} vs {want_h!r}", {})
                added = [x for x in out if x not in want_h]
                addl = sorted(k.lower() for k, _ in added if k.lower() != b"host")
                has_framing = b"content-length" in lower or b"transfer-encoding" in lower
                exp_add = [] if (kind == "none" or has_framing) else (
                    [b"content-length"] if kind == "bytes" else [b"transfer-encoding"])
                if addl != exp_add:
                    v("framing-default:" + kind, f"added {addl!r}, expected {exp_add!r} (supplied {lower!r})", {})
                if kind == "bytes" and not has_framing and (b"Content-Length", b"3") not in added:
                    v("content-length-value", repr(added), {})
                sigs.add(f"content:{kind}:{has_framing}:{b'host' in lower}")
            # ... and the list as it reaches the next hop: directly, and through a forwarding proxy that has header
            # fields of its own (one of them colliding with a request field)
            if i % 35 == 0 and u.scheme == b"http":
                safe = [x for x in want_h if x[0].lower() in (b"accept", b"x-a", b"cookie", b"x-b")]
                for route in ("direct", "forward"):
                    cnt["law_headers_wire"] = cnt.get("law_headers_wire", 0) + 1
                    got_h = wire_headers(u, safe, route)
                    mine = [x for x in got_h if x[0].lower() in (b"accept", b"x-a", b"cookie", b"x-b")] if isinstance(got_h, list) else got_h
                    want_w = list(safe)
                    if route == "forward" and not any(k.lower() == b"x-a" for k, _ in safe):
                        want_w = [(b"X-A", b"from-proxy")] + want_w  # the proxy's own field, not overridden by the request
                    if mine != want_w:
                        v(f"headers-not-preserved-on-the-wire:{route}", f"{mine!r} != {want_w!r}", {"headers": repr(safe)})
                    sigs.add(f"wire:{route}:{len(safe)}:{len(set(k.lower() for k, _ in safe))}")
    # dedupe by key
    seen = set()
    out = []
    for x in viol:
        if x["key"] not in seen:
            seen.add(x["key"])
            out.append(x)
    return {"viol": out, "counters": cnt, "sigs": sorted(sigs), "sample": sample}


def wire_headers(u, headers, route):
    """The header list the next hop parses for one GET with `headers` (sync flavour, simulated network)."""
    from .. import simnet, endpoints
    from ..world import mk_pool
    net = simnet.Net()
    net.log_events = False
    host = u.host.decode("ascii")
    port = 80 if u.port is None else u.port
    origin = endpoints.Origin(net, host, port, register=route == "direct")
    if route == "forward":
        px = endpoints.HTTPProxy(net, "proxy.test", 3128, origins=[origin])
        pool = mk_pool("sync", net, proxy={"url": "http://proxy.test:3128", "headers": [(b"X-Proxy", b"p"), (b"X-A", b"from-proxy")]})
    else:
        pool = mk_pool("sync", net)
    from ..world import run_flavor

    async def main():
        try:
            pool.request("GET", u, headers=list(headers))
            reqs = px.forwards if route == "forward" else origin.requests
            return list(reqs[-1].headers) if reqs else "no request on the wire"
        except Exception as exc:  # noqa
            return f"raised {exc!r}"
        finally:
            pool.close()
    return run_flavor("sync", net, main)


def plan(tier, seed):
    n_cases, n = (40, 500) if tier == "quick" else (400, 5000)
    return [{"seed": seed * 100003 + i, "n": n} for i in range(n_cases)]
