"""C09 — keep-alive reuse, limits and expiry: a small reference model runs beside sequential
histories on the virtual clock and judges R1 reuse, R2 idle bound, R3 never hand out a dead
connection, R4 every close of an idle connection has a reason."""
from __future__ import annotations

import random

from .. import REPO  # noqa: F401
import httpcore

from .. import simnet, endpoints
from ..simnet import CALL
from ..world import mk_pool, API, run_flavor, guarded, owned_transports, exc_name

ID = "C09"
LEVEL = "exploration"
RULE = ("seeded sequential histories of 5-40 steps over {request(origin), open-and-hold(origin), release, advance clock by "
        "{0, expiry-eps, expiry+eps, 2*expiry, 0.3}, server closes an idle connection} x 1-4 origins x max_connections "
        "{1,2,3,None} x max_keepalive_connections {0,1,2,None} x keepalive_expiry {0, 5.0, None} x {HTTP/1.1, HTTP/2} x "
        "{asyncio, trio, sync}; distinct+non-trivial = (configuration, set of rule situations that actually occurred: "
        "reuse-expected, expired-skip, server-closed-skip, surplus-close, eviction, boundary); plus (asyncio, trio) 'queued' histories: "
        "2-4 requests queued at max_connections 1-2 over 2-3 origins and served as the held responses are released, with a monitor "
        "at every transport close (no connection just handed to a queued request is closed before it is used)")
ASSUMPTIONS = ["op latencies are zero and the clock moves only in explicit steps, so 'idle since' is exact",
               "at the boundary instant now = idle-since + expiry either answer is accepted",
               "which idle connection is closed for surplus/eviction is not prescribed, only how many"]
REQUIRED = ["histories", "steps", "r1_reuse_expected", "r2_checks", "r3_checks", "r4_closes_judged", "expired_situations",
            "server_closed_situations", "eviction_situations"]

EPS = 1e-6


def gen_history(r: random.Random):
    cfg = {
        "proto": r.choice(["h1", "h1", "h2"]),
        "n_origins": r.randint(1, 4),
        "max_connections": r.choice([1, 2, 3, None]),
        "max_keepalive": r.choice([0, 1, 2, None]),
        "keepalive_expiry": r.choice([0, 5.0, 5.0, None]),
    }
    if cfg["proto"] == "h2" and r.random() < 0.5:
        # legal chatter: the server follows every response with a PING / a byte of credit a little later, so the socket
        # of the idle HTTP/2 connection is readable once the clock has moved - which says nothing about its health
        cfg["h2_after_end"] = r.choice(["ping", "wu"])
    steps = []
    held = 0
    exp = cfg["keepalive_expiry"]
    if r.random() < 0.3:
        # a motif: the pool holds exactly as many idle connections as it may keep, one of them expires (or is closed by
        # the server), and in the same pass another connection goes idle - one is reaped, none is surplus
        k = r.choice([1, 2])
        cfg["max_keepalive"] = k
        cfg["n_origins"] = max(cfg["n_origins"], k + 1)
        if cfg["max_connections"] is not None:
            cfg["max_connections"] = max(cfg["max_connections"], k + 1)
        if r.random() < 0.25:
            steps += [["request", o] for o in range(k)] + [["refused"]] + [["request", o] for o in range(k)]
        else:
            steps += [["request", 0]]
            if exp and k == 2:
                steps += [["advance", exp / 2], ["request", 1]]  # the second idle connection is younger
            elif k == 2:
                steps += [["request", 1]]
            steps += [["hold", k]]
            steps.append(["advance", exp / 2 + 0.001] if exp and k == 2 else ["advance", exp + 0.001] if exp else ["server_close", 0])
            steps += [["release", 0], ["request", k]] + ([["request", 1]] if k == 2 else [])
    cap = cfg["max_connections"] or 4
    for _ in range(r.randint(5, 40)):
        x = r.random()
        free = held < cap  # a sequential caller must never need a slot that only it could free
        if x < 0.45:
            if free:
                steps.append(["request", r.randrange(cfg["n_origins"])])
            elif held:
                steps.append(["release", r.randrange(held)])
                held -= 1
        elif x < 0.6:
            if held < cap - 1 and held < 3:
                steps.append(["hold", r.randrange(cfg["n_origins"])])
                held += 1
            elif free:
                steps.append(["request", r.randrange(cfg["n_origins"])])
        elif x < 0.66:
            if held:
                # the body is read to its end but the response stays open (a slow consumer): the keep-alive period must
                # not start before the response is closed
                steps.append(["drain", r.randrange(held)])
        elif x < 0.72:
            if held:
                steps.append(["release", r.randrange(held)])
                held -= 1
        elif x < 0.9:
            if exp:
                d = r.choice([0.0, exp - 0.001, exp + 0.001, 2 * exp, 0.3, exp / 2])
            else:
                d = r.choice([0.0, 0.001, 0.3, 7.0])
            steps.append(["advance", d])
        elif x < 0.96:
            steps.append(["server_close", r.randrange(cfg["n_origins"])])
        elif free:
            # a request to an origin where nothing listens: the failed connection must not cost any other one its place
            steps.append(["refused"])
    return cfg, steps


class Model:
    def __init__(self, cfg, net, pool):
        self.cfg = cfg
        self.net = net
        self.pool = pool
        self.holds: dict[int, int] = {}       # transport -> outstanding responses
        self.idle_since: dict[int, float] = {}
        self.server_closed: set[int] = set()
        self.origin_of: dict[int, int] = {}

    def pooled_open(self):
        open_now = {t.id for t in self.net.transports if not t.closed}
        owned = set()
        for c in self.pool.connections:
            owned |= owned_transports(c)
        return owned & open_now

    def is_idle(self, t):
        return self.holds.get(t, 0) == 0 and t in self.idle_since

    def expiry_state(self, t, now):
        """'fresh' | 'expired' | 'boundary'"""
        exp = self.cfg["keepalive_expiry"]
        if exp is None:
            return "fresh"
        age = now - self.idle_since[t]
        # (with server chatter a response is delivered up to 10 ms of virtual time after the frame before it, so the clock
        # moves a little inside a step and an age this close to the expiry may fall on either side of it)
        if abs(age - exp) <= (0.05 if self.cfg.get("h2_after_end") else EPS):
            return "boundary"
        return "expired" if age > exp else "fresh"


async def run_history(flavor, cfg, steps, cnt, v, sigs_out):
    net = simnet.Net()
    h2 = cfg["proto"] == "h2"
    scheme = "https" if h2 else "http"
    origins = [endpoints.Origin(net, f"o{i}.test", 443 if h2 else 80, tls=h2, alpn=["h2"] if h2 else None,
                                h2_script={"after_end": cfg["h2_after_end"]} if cfg.get("h2_after_end") else None)
               for i in range(cfg["n_origins"])]
    cnt["h2_chatter_histories"] = cnt.get("h2_chatter_histories", 0) + bool(cfg.get("h2_after_end"))
    pool = mk_pool(flavor, net, max_connections=cfg["max_connections"], max_keepalive_connections=cfg["max_keepalive"],
                   keepalive_expiry=cfg["keepalive_expiry"], http2=h2)
    api = API(flavor, pool, net)
    m = Model(cfg, net, pool)
    held = []  # (cm, transport)
    drained = []  # the response objects themselves (kept alive: an id() could be re-used by a later response)
    sit = set()
    maxc = cfg["max_connections"] if cfg["max_connections"] is not None else 10 ** 9
    maxk = min(maxc, cfg["max_keepalive"] if cfg["max_keepalive"] is not None else 10 ** 9)
    seqno = [0]

    def ctx(i, step, extra=None):
        d = {"flavor": flavor, "config": cfg, "step_index": i, "step": step, "history": steps[:i + 1]}
        if extra:
            d.update(extra)
        return d

    for i, step in enumerate(steps):
        kind = step[0]
        cnt["steps"] += 1
        now = net.now()
        ev0 = len(net.events)
        pooled0 = m.pooled_open()
        idle0 = {t for t in pooled0 if m.is_idle(t)}
        closed_allow_free = set()   # closes that need no budget: expired / server closed / boundary
        for t in idle0:
            st = m.expiry_state(t, now)
            if st in ("expired", "boundary") or t in m.server_closed:
                closed_allow_free.add(t)
        if kind in ("request", "hold"):
            o = step[1]
            seqno[0] += 1
            tok = f"s{seqno[0]}"
            CALL.set(tok)
            reusable = [t for t in idle0 if m.origin_of.get(t) == o and t not in m.server_closed and
                        m.expiry_state(t, now) == "fresh"]
            boundary = [t for t in idle0 if m.origin_of.get(t) == o and t not in m.server_closed and
                        m.expiry_state(t, now) == "boundary"]
            multiplexable = [t for t in pooled0 if h2 and m.origin_of.get(t) == o and m.holds.get(t, 0) > 0
                             and t not in m.server_closed]
            n_tr0 = len(net.transports)
            url = f"{scheme}://o{o}.test/{tok}"
            if kind == "request":
                out = await guarded(flavor, lambda: api.request("GET", url, headers=[("X-Token", tok)]))
            else:
                out = await guarded(flavor, lambda: api.open("GET", url, headers=[("X-Token", tok)]))
            new_tr = len(net.transports) - n_tr0
            reqs = origins[o].by_token.get(tok.encode(), [])
            carried = reqs[-1][0].tr if reqs else None
            if out.kind != "ok":
                dead_ok = h2 and any(t in m.server_closed for t in pooled0)
                if not dead_ok:
                    v(f"request-failed:{exc_name(out.exc) if out.kind == 'exc' else out.kind}",
                      f"sequential request failed: {out!r}", ctx(i, step))
                await _cleanup(api, held, flavor)
                return sit
            # R1 reuse
            if reusable:
                cnt["r1_reuse_expected"] += 1
                sit.add("reuse-expected")
                if new_tr or carried not in reusable + boundary + multiplexable:
                    v("r1:no-reuse-of-idle-unexpired-connection",
                      f"pool held idle, unexpired, open connection(s) {reusable} for origin o{o} but the request "
                      f"{'opened a new connection' if new_tr else 'went elsewhere'} (carried by transport {carried})",
                      ctx(i, step, {"idle_since": {t: m.idle_since[t] for t in reusable}, "now": now}))
            elif boundary:
                sit.add("boundary")
            # R3 never hand out a dead one
            cnt["r3_checks"] += 1
            if carried is not None and carried in idle0:
                st = m.expiry_state(carried, now)
                if st == "expired":
                    v("r3:request-on-expired-connection", f"request written to transport {carried} whose keep-alive "
                      f"expiry had elapsed (idle since {m.idle_since[carried]}, now {now})", ctx(i, step))
                if carried in m.server_closed and not h2:
                    v("r3:request-on-server-closed-connection", f"request written to idle HTTP/1.1 transport {carried} "
                      f"that the server had already closed", ctx(i, step))
            if any(m.expiry_state(t, now) == "expired" and m.origin_of.get(t) == o for t in idle0):
                cnt["expired_situations"] += 1
                sit.add("expired-skip")
            if any(t in m.server_closed and m.origin_of.get(t) == o for t in idle0):
                cnt["server_closed_situations"] += 1
                sit.add("server-closed-skip")
            if carried is not None:
                m.origin_of[carried] = o
                if kind == "hold":
                    m.holds[carried] = m.holds.get(carried, 0) + 1
                    held.append((out.value[1], carried, out.value[0]))
                    m.idle_since.pop(carried, None) if m.holds[carried] == 1 and False else None
                else:
                    if m.holds.get(carried, 0) == 0:
                        m.idle_since[carried] = net.now()
            budget_evict = 1 if (not reusable and not multiplexable and len(pooled0) >= maxc) else 0
            if budget_evict and idle0:
                cnt["eviction_situations"] += 1
                sit.add("eviction")
        elif kind == "refused":
            seqno[0] += 1
            CALL.set(f"s{seqno[0]}")
            out = await guarded(flavor, lambda: api.request("GET", f"{scheme}://nowhere.test/x"))
            cnt["refused_connects"] = cnt.get("refused_connects", 0) + 1
            if out.kind != "exc" or not isinstance(out.exc, httpcore.ConnectError):
                v("refused-connect-outcome", f"request to an origin where nothing listens: {out!r}", ctx(i, step))
            # making room for the attempt at the connection limit is a legitimate reason to close an idle connection
            budget_evict = 1 if len(pooled0) >= maxc else 0
        elif kind == "drain":
            cm, t, resp = held[step[1]]
            if not any(x is resp for x in drained):
                drained.append(resp)
                out = await guarded(flavor, lambda: api.read(resp))
            budget_evict = 0
        elif kind == "release":
            cm, t, resp = held.pop(step[1])

            async def rel():
                if not any(x is resp for x in drained):
                    await api.read(resp)  # finish the exchange so that the connection can go idle
                await api.close(cm)
            out = await guarded(flavor, rel)
            m.holds[t] -= 1
            if m.holds[t] == 0:
                m.idle_since[t] = net.now()
            budget_evict = 0
        elif kind == "advance":
            await api.sleep(step[1])
            budget_evict = 0
        elif kind == "server_close":
            o = step[1]
            cands = [t for t in idle0 if m.origin_of.get(t) == o and t not in m.server_closed]
            if cands:
                t = cands[0]
                net.transports[t].server_close()
                m.server_closed.add(t)
            budget_evict = 0
        # R4: closes of idle transports during this step must have reasons
        closed_now = [e["tr"] for e in net.events[ev0:] if e["ev"] == "close"]
        idle_closed = [t for t in closed_now if t in idle0]
        pooled1 = m.pooled_open()
        idle_after = {t for t in pooled1 if m.is_idle(t)}
        # surplus budget: how many idle connections had to go to respect the keep-alive limit
        became_idle = {t for t in idle_after | set(closed_now) if m.is_idle(t) and t not in idle0}
        # (a connection that is reaped anyway - strictly expired, or an HTTP/1.1 one the server has closed - does not
        # count: after it is gone the others may be within the limit)
        reaped = {t for t in idle0 if m.expiry_state(t, now) == "expired" or (t in m.server_closed and not h2)}
        total_idle_candidates = len(idle0 - reaped) + len(became_idle)
        surplus_budget = max(0, total_idle_candidates - maxk)
        need_budget = [t for t in idle_closed if t not in closed_allow_free]
        also_new_idle_closed = [t for t in closed_now if t in became_idle]
        cnt["r4_closes_judged"] += len(idle_closed) + len(also_new_idle_closed)
        if surplus_budget and (idle_closed or also_new_idle_closed):
            sit.add("surplus-close")
        if len(need_budget) + len(also_new_idle_closed) > surplus_budget + budget_evict:
            v("r4:idle-connection-closed-without-reason",
              f"step {step}: idle transports {need_budget + also_new_idle_closed} were closed; not expired, not closed by "
              f"the server, keep-alive surplus budget {surplus_budget} (idle {total_idle_candidates}, limit "
              f"{cfg['max_keepalive']}), eviction budget {budget_evict}",
              ctx(i, step, {"now": now, "now_after": net.now(), "idle_since": {str(t): m.idle_since.get(t) for t in idle0},
                            "server_closed": sorted(m.server_closed), "closed_now": closed_now, "idle_before": sorted(idle0),
                            "pool": [c.info() for c in pool.connections],
                            "closes": [{k: str(x) for k, x in e.items()} for e in net.events[ev0:] if e["ev"] == "close"]}))
        # R2: idle bound once the operation completed
        cnt["r2_checks"] += 1
        n_idle = sum(1 for c in pool.connections if c.is_idle() and not c.is_closed())
        if n_idle > maxk:
            v("r2:more-idle-connections-than-keepalive-limit", f"{n_idle} idle connections after step {step}, limit "
              f"min(max_connections, max_keepalive_connections) = {maxk}", ctx(i, step))
        for t in closed_now:
            m.idle_since.pop(t, None)
    await _cleanup(api, held, flavor)
    return sit


async def _cleanup(api, held, flavor):
    for cm, t, resp in held:
        await guarded(flavor, lambda cm=cm: api.close(cm))
    await guarded(flavor, api.close_pool)


def run_case(case):
    flavor = case["flavor"]
    viol = []
    cnt = {k: 0 for k in ["histories", "steps", "r1_reuse_expected", "r2_checks", "r3_checks", "r4_closes_judged",
                          "expired_situations", "server_closed_situations", "eviction_situations", "queued_histories", "queued_requests"]}
    sigs = set()
    sample = {}

    def v(key, what, detail):
        if not any(x["key"] == key for x in viol):
            viol.append({"key": key, "what": what, "detail": detail})

    async def main():
        r = random.Random(case["seed"])
        for _ in range(case["n"]):
            cfg, steps = gen_history(r)
            sit = await run_history(flavor, cfg, steps, cnt, v, sigs)
            cnt["histories"] += 1
            if sit:
                sigs.add(f"{flavor}|{cfg['proto']}|mc{cfg['max_connections']}|mk{cfg['max_keepalive']}|ke{cfg['keepalive_expiry']}|"
                         + ",".join(sorted(sit)))
            if not sample and len(sit) >= 3:
                sample.update({"config": cfg, "steps": steps, "situations": sorted(sit)})

    async def main_q():
        r = random.Random(case["seed"] + 77)
        for _ in range(max(4, case["n"] // 3)):
            await run_queued(flavor, r, cnt, v, sigs)
        for _ in range(4):
            await run_h2_overlap(flavor, r, cnt, v, sigs)

    run_flavor(flavor, None, main, seed=case["seed"])
    if flavor != "sync":
        run_flavor(flavor, None, main_q, seed=case["seed"])
    return {"viol": viol, "counters": cnt, "sigs": sorted(sigs), "sample": sample or None}


async def run_queued(flavor, r, cnt, v, sigs):
    """Several requests queued at the connection limit, served as held responses are released: within one pass of the pool
    an idle connection handed to one queued request must not be closed to make room for another one. Monitor at every
    `close` of a transport: no queued-and-assigned request may be waiting to use the connection that owns it; and every
    queued request must be answered."""
    import anyio
    net = simnet.Net()
    n_orig = r.choice([2, 3])
    m = r.choice([1, 1, 2])
    origins = [endpoints.Origin(net, f"o{i}.test", 80) for i in range(n_orig)]
    pool = mk_pool(flavor, net, max_connections=m, max_keepalive_connections=r.choice([None, 5]), keepalive_expiry=None)
    api = API(flavor, pool, net)
    bad = []

    def ob(rec):
        if rec["ev"] != "close":
            return
        for pr in list(getattr(pool, "_requests", [])):
            c = getattr(pr, "connection", None)
            # (in this family every response is keep-alive and nothing fails: the only closes are evictions of idle
            # connections and the final pool close, neither of which may hit a connection that a request holds)
            if c is not None and rec["tr"] in owned_transports(c):
                bad.append({"transport": rec["tr"], "connection": c.info()})
    net.observers.append(ob)
    held = []
    for i in range(m):
        o = r.randrange(n_orig)
        CALL.set(f"h{i}")
        out = await guarded(flavor, lambda o=o, i=i: api.open("GET", f"http://o{o}.test/h{i}", headers=[("X-Token", f"h{i}")]))
        if out.kind != "ok":
            return
        held.append((out.value[1], out.value[0], o))
    k = r.randint(2, 4)
    q_origins = [r.randrange(n_orig) for _ in range(k)]
    results = {}

    async def queued(j):
        CALL.set(f"q{j}")
        results[j] = await guarded(flavor, lambda: api.request("GET", f"http://o{q_origins[j]}.test/q{j}", headers=[("X-Token", f"q{j}")]))

    async def releaser():
        await api.sleep(1.0)   # every queued request has reached the queue, in order
        for cm, resp, o in held:
            await api.read(resp)
            await api.close(cm)
            await api.sleep(1.0)

    async def body():
        async with anyio.create_task_group() as tg:
            for j in range(k):
                tg.start_soon(queued, j)
                await api.sleep(0.01)
            tg.start_soon(releaser)
        return True
    out = await guarded(flavor, body)
    cnt["queued_histories"] += 1
    cnt["queued_requests"] += k
    sigs.add(f"queued|{flavor}|m{m}|held{[h[2] for h in held]}|q{q_origins}")
    ctx = {"flavor": flavor, "max_connections": m, "held_origins": [h[2] for h in held], "queued_origins": q_origins,
           "connects": [list(t.target) for t in net.transports]}
    if out.kind != "ok":
        v("queued:hang", f"{out!r}", ctx)
    for j, o_ in results.items():
        if o_.kind != "ok" or o_.value.status != 200:
            v("queued:request-failed:" + (exc_name(o_.exc) if o_.kind == "exc" else o_.kind), f"q{j}: {o_!r}", ctx)
    if bad:
        v("queued:assigned-idle-connection-closed-before-use", f"a transport was closed while a queued request that had just been "
          f"given its connection was waiting to use it: {bad[:2]}", dict(ctx, closes=bad[:4]))
    await guarded(flavor, api.close_pool)


async def run_h2_overlap(flavor, r, cnt, v, sigs):
    """HTTP/2: requests that overlap on one connection - the second one is admitted while the first one holds the only
    stream slot a connection has until the server's SETTINGS arrive (or the server allows one stream). The connection
    is idle, and its keep-alive period starts, when the LAST of them is closed: while a response is in flight it does
    not report idle (a busy connection counted as idle costs another origin's idle connection its place), and a
    sequential request right after the last close reuses it."""
    import anyio
    from ..endpoints import Resp
    net = simnet.Net()
    exp = r.choice([2.0, 5.0])
    slow = exp + r.choice([0.5, 3.0])
    mcs = r.choice([None, 1, 100])

    def responder(req, origin):
        tok = req.token or b"-"
        return Resp(200, b"OK", [(b"X-Echo", tok)], b"x" * 300, delay=slow if tok == b"B" else 0.0)
    h2s = {"data_chunk": 4000}
    if mcs is not None:
        h2s["settings"] = {3: mcs}
    origins = [endpoints.Origin(net, f"o{i}.test", 443, tls=True, alpn=["h2"], responder=responder, h2_script=dict(h2s)) for i in range(2)]
    pool = mk_pool(flavor, net, http2=True, max_connections=3, max_keepalive_connections=r.choice([1, 2, None]), keepalive_expiry=exp)
    api = API(flavor, pool, net)
    res = {}
    seen = {"busy_idle": None}
    ctx = {"flavor": flavor, "keepalive_expiry": exp, "slow_response_after": slow, "max_concurrent_streams": mcs}
    CALL.set("w")
    other = await guarded(flavor, lambda: api.request("GET", "https://o1.test/w", headers=[("X-Token", "w")]))   # an idle connection elsewhere

    async def caller(tok, dt):
        CALL.set(tok)
        await api.sleep(dt)
        res[tok] = await guarded(flavor, lambda: api.request("GET", f"https://o0.test/{tok}", headers=[("X-Token", tok)]))

    async def watcher():
        await api.sleep(slow / 2)   # A is done, B's response is still to come
        for c in pool.connections:
            if "o0.test" in c.info() and c.is_idle():
                seen["busy_idle"] = c.info()

    async def body():
        async with anyio.create_task_group() as tg:
            tg.start_soon(caller, "A", 0.0)
            tg.start_soon(caller, "B", 0.0)
            tg.start_soon(watcher)
        return True
    n_before = None
    out = await guarded(flavor, body)
    cnt["h2_overlap_histories"] = cnt.get("h2_overlap_histories", 0) + 1
    sigs.add(f"h2-overlap|{flavor}|{exp}|{slow}|{mcs}")
    if out.kind != "ok" or any(o.kind != "ok" for o in res.values()) or other.kind != "ok":
        v("h2-overlap:request-failed", f"{out!r} {res!r} {other!r}"[:300], ctx)
        await guarded(flavor, api.close_pool)
        return
    if seen["busy_idle"]:
        v("h2-overlap:connection-with-a-response-in-flight-reports-idle", f"{seen['busy_idle']} while request B was waiting for its "
          f"response", ctx)
    n_before = len(net.transports)
    CALL.set("C")
    outc = await guarded(flavor, lambda: api.request("GET", "https://o0.test/C", headers=[("X-Token", "C")]))
    cnt["r1_reuse_expected"] += 1
    if outc.kind != "ok":
        v("h2-overlap:sequential-request-failed", f"{outc!r}", ctx)
    elif len(net.transports) != n_before:
        v("r1:no-reuse-of-idle-unexpired-connection:h2-overlap", f"the connection became idle when request B was closed, {slow} s "
          f"after request A; a request right after that opened a new connection (keep-alive {exp} s)", ctx)
    await guarded(flavor, api.close_pool)


def plan(tier, seed):
    n_cases, n = (48, 45) if tier == "quick" else (480, 220)
    return [{"flavor": ["asyncio", "trio", "sync"][i % 3], "seed": seed * 1000003 + i, "n": n} for i in range(n_cases)]
