"""C08 — the synchronous pool is thread-safe.

Real threads serialised by the controlled scheduler (hv.sched): pre-emption at every
sys.monitoring LINE event inside httpcore/_sync/*.py and _synchronization.py, at every shim
lock/event/semaphore operation and at every simulated network operation, under seeded
random and PCT schedules. Oracles inside the scheduler: every request to the well-behaved
endpoints succeeds, echo equality (no cross-talk), connection-limit invariant after every
ledger event, no deadlock (no enabled thread and no virtual deadline), no internal error
reaching a caller."""
from __future__ import annotations

import os
import random

from .. import REPO  # noqa: F401
import httpcore

from ..workload import Workload, gen_spec, LimitObserver
from ..world import run_threaded, run_sync, exc_name, documented, pool_counts

ID = "C08"
LEVEL = "exploration"
RULE = ("2-4 threads x 2-3 requests each on one ConnectionPool; families F1 (limits >= demand, no expiry: any failure is "
        "new), F2 (max_connections 1-2, max_keepalive 0-2, keep-alive expiry, same and different origins: eviction and "
        "expiry races), F3 (one shared HTTP/2 connection, MAX_CONCURRENT_STREAMS 1-100), F4 (max_connections 1, some callers "
        "with a pool timeout and some without, and a scheduler that lets a timed wait expire while the other threads are "
        "mid-step: timeout-versus-hand-over races; a PoolTimeout after the time has passed is the only failure allowed); schedules: uniform random switching "
        "p in {0.02,0.1,0.3} and PCT depth 1-3, each with line-level pre-emption, a third of them also with bytecode-level "
        "pre-emption inside the pool module; distinct+non-trivial = distinct schedule "
        "fingerprint (sequence of thread choices at switch points) with >= 1 context switch inside httpcore code")
ASSUMPTIONS = ["shim Lock/Event/Semaphore model threading's semantics; pre-emption only between lines of httpcore's sync code "
               "(h11/h2/hpack run atomically: under-approximates CPython, can miss but not invent races)",
               "well-behaved use only: the pool is not closed while requests are in flight"]
REQUIRED = ["schedules", "yield_points", "line_events", "context_switches", "requests_ok", "oracle_limit_evals", "lock_contended"]


SWEEP_FILES = ("connection_pool.py", "http11.py", "connection.py", "_synchronization.py", "interfaces.py")


def sweep_specs():
    """Small fixed workloads for the systematic single-pre-emption sweep."""
    out = []
    for i, kw in enumerate([
            dict(n_origins=1, max_connections=1, max_keepalive=None, keepalive_expiry=None, n_callers=3, reqs=2),
            dict(n_origins=2, max_connections=1, max_keepalive=1, keepalive_expiry=None, n_callers=3, reqs=2),
            dict(n_origins=1, max_connections=2, max_keepalive=0, keepalive_expiry=None, n_callers=3, reqs=2),
            dict(n_origins=2, max_connections=2, max_keepalive=1, keepalive_expiry=0.02, n_callers=4, reqs=2),
            # one caller queues with a pool timeout that is shorter than the pause of the pre-empted thread: the timeout
            # expires while another thread is in the middle of whatever it was doing (hand-over, clean-up, ...)
            dict(n_origins=2, max_connections=1, max_keepalive=None, keepalive_expiry=None, n_callers=3, reqs=2,
                 pool_timeout=0.02, pool_timeout_callers=[1], family="F4"),
            dict(n_origins=1, max_connections=1, max_keepalive=1, keepalive_expiry=None, n_callers=3, reqs=2,
                 pool_timeout=0.015, pool_timeout_callers=[0, 2], family="F4"),
            # another thread closes the pool while a request's assignment pass - which has connections to remove (expired,
            # surplus) - is pre-empted for longer than the closer sleeps
            dict(n_origins=2, max_connections=10, max_keepalive=1, keepalive_expiry=0.0, n_callers=2, reqs=3, closer=0.025,
                 family="F5"),
            dict(n_origins=2, max_connections=10, max_keepalive=0, keepalive_expiry=None, n_callers=2, reqs=3, closer=0.015,
                 family="F5")]):
        r = random.Random(1000 + i)
        base = dict(proxy=None, fault_ops=[], latency="zero", think=0.0, pool_timeout=None, resp_delay=0.01,
                    behaviours=["read", "head-only", "read", "partial"], server_modes=False, early=False, max_body=3000,
                    proto="h1", retries=0, connect_fail=0.0)
        fam = kw.pop("family", "F2")
        base.update(kw)
        spec = gen_spec(r, "sync", **base)
        spec["family"] = fam
        spec.pop("pool_kw", None)
        out.append(spec)
    return out


def gen_thread_spec(r: random.Random) -> dict:
    fam = r.choice(["F1", "F2", "F2", "F3", "F4", "F5"])
    n_threads = r.randint(2, 4)
    base = dict(n_callers=n_threads, reqs=r.randint(2, 3), proxy=None, fault_ops=[], latency=r.choice(["zero", "zero", "mixed"]),
                think=r.choice([0.0, 0.0, 0.05]), pool_timeout=None, resp_delay=r.choice([0.0, 0.0, 0.01]),
                behaviours=["read", "read", "head-only", "partial", "post"], server_modes=False, early=False, max_body=5000)
    if fam == "F1":
        base.update(proto=r.choice(["h1", "h1tls"]), n_origins=r.choice([1, 2]), max_connections=10, max_keepalive=None,
                    keepalive_expiry=None)
    elif fam == "F2":
        base.update(proto=r.choice(["h1", "h1", "h1tls"]), n_origins=r.choice([1, 2, 3]), max_connections=r.choice([1, 2]),
                    max_keepalive=r.choice([0, 1, 2, None]), keepalive_expiry=r.choice([None, 0.0, 0.02, 1.0]))
    elif fam == "F5":
        # one more thread closes the pool while the others are using it (a shutdown). Limits are generous, nobody queues.
        # What the requests end with is open (success, or a documented error because their connection was closed under
        # them) - but no internal error may reach a caller, nothing may deadlock, and nothing stays counted
        base.update(proto=r.choice(["h1", "h1", "h1tls"]), n_origins=r.choice([1, 2]), max_connections=10,
                    max_keepalive=r.choice([0, 1, None]), keepalive_expiry=r.choice([None, 0.0, 0.02]), resp_delay=r.choice([0.0, 0.01]),
                    closer=r.choice([0.0, 0.001, 0.005, 0.011, 0.02, 0.05]))
    elif fam == "F4":
        # some callers queue with a pool timeout, others without; the scheduler may let a timeout expire while the
        # other threads are in the middle of a step (Sched.p_jump): timeout-versus-hand-over races
        n = base["n_callers"] = r.randint(3, 4)
        k = r.randint(1, n - 1)
        base.update(proto=r.choice(["h1", "h1tls"]), n_origins=r.choice([1, 2, 2]), max_connections=1,
                    max_keepalive=r.choice([1, None]), keepalive_expiry=None, pool_timeout=r.choice([0.001, 0.02, 0.3]),
                    pool_timeout_callers=sorted(r.sample(range(n), k)), resp_delay=r.choice([0.01, 0.05]))
    else:
        base.update(proto="h2", n_origins=1, max_connections=r.choice([1, 2]), max_keepalive=None, keepalive_expiry=None,
                    h2_settings={"3": r.choice([1, 2, 100])})
    base.update(retries=0, connect_fail=0.0)
    spec = gen_spec(r, "sync", **base)
    spec["family"] = fam
    spec.pop("pool_kw", None)
    return spec


def run_case(case):
    viol = []
    cnt = {k: 0 for k in ["schedules", "yield_points", "line_events", "context_switches", "requests_ok", "requests_failed",
                          "oracle_limit_evals", "lock_contended", "event_blocked", "sem_blocked", "deadlocks", "pool_timeouts", "opcode_events",
                          "timeouts_under_load"]}
    sigs = set()
    sample = {}

    def v(key, what, detail):
        if not any(x["key"] == key for x in viol):
            viol.append({"key": key, "what": what, "detail": detail})

    last = {}

    def jobs():
        if case.get("kind") != "sweep":
            for spec_ in case["specs"]:
                for sched_ in case["scheds"]:
                    yield spec_, sched_
            return
        # systematic single pre-emption: a baseline run records which source lines of the sync package run and how often;
        # then, for every such line and the n-th time it is executed, the thread executing it loses the CPU right there
        # for 30 ms of virtual time (longer than an exchange takes) while everybody else runs (no other pre-emption;
        # initial priorities from the seed)
        spec_ = case["spec"]
        seen = {}
        for bi, base_ in enumerate([{"strategy": "pct", "depth": 0, "seed": 1}, {"strategy": "pct", "depth": 0, "seed": 2},
                                    {"strategy": "random", "p": 0.05, "seed": 3}, {"strategy": "random", "p": 0.3, "seed": 4},
                                    {"strategy": "pct", "depth": 3, "seed": 5}]):
            yield spec_, dict(base_, collect=True)
            for k_, n_ in (last["s"].line_seen or {}).items():
                seen[k_] = max(seen.get(k_, 0), n_)
        lines_ = sorted(k for k in seen if os.path.basename(k[0]) in SWEEP_FILES)
        cnt["sweep_lines_in_baseline"] = cnt.get("sweep_lines_in_baseline", 0) + len(lines_)
        for f_, l_ in lines_[case["chunk"]::case["n_chunks"]]:
            for occ in case["occs"]:
                if occ <= seen[(f_, l_)]:
                    for sd in case["seeds"]:
                        for pause in case.get("pauses", [0.03]):
                            yield spec_, {"strategy": "pct", "depth": 0, "seed": sd * 7919 + l_ * 31 + occ,
                                          "target": [f_, l_, occ, pause], "at": f"{os.path.basename(f_)}:{l_}#{occ}", "pause": pause}

    for spec, sched in jobs():
        if True:
            box = {}

            def setup(s):
                wl = Workload(spec)
                wl.net.log_events = False
                ob = LimitObserver(wl)
                wl.net.observers.append(ob)
                box.update(wl=wl, ob=ob)
                threads = {f"t{c}": (lambda c=c: run_sync(wl.caller(c))) for c in range(spec["n_callers"])}
                if spec.get("closer") is not None:
                    threads["closer"] = lambda: (s.sleep(spec["closer"]), wl.pool.close())
                return threads

            s, outs, shim = run_threaded(setup, seed=sched["seed"] ^ spec["seed"], strategy=sched["strategy"], p=sched.get("p", 0.1),
                                         depth=sched.get("depth", 2), lines=True, est_steps=3000,
                                         p_jump=0.01 if spec["family"] == "F4" else 0.0,
                                         opcodes=bool(sched.get("opcodes")), target=tuple(sched["target"]) if sched.get("target") else None,
                                         collect=bool(sched.get("collect")))
            last["s"] = s
            if sched.get("target"):
                cnt["sweep_schedules"] = cnt.get("sweep_schedules", 0) + 1
                cnt["sweep_preemptions_fired"] = cnt.get("sweep_preemptions_fired", 0) + (1 if s.target_fired else 0)
                sched = {k: x for k, x in sched.items() if k != "target"}  # (the path is machine-specific; 'at' names it)
            wl, ob = box["wl"], box["ob"]
            cnt["schedules"] += 1
            cnt["yield_points"] += s.steps
            cnt["line_events"] += s.line_events
            cnt["opcode_events"] += s.op_events
            cnt["context_switches"] += s.switches
            cnt["timeouts_under_load"] += s.jumps
            cnt["oracle_limit_evals"] += ob.evals
            cnt["lock_contended"] += shim.stats["lock_contended"]
            cnt["event_blocked"] += shim.stats["event_blocked"]
            cnt["sem_blocked"] += shim.stats["sem_blocked"]
            fam = spec["family"]
            ctx = {"spec": spec, "schedule": sched}
            if not s.wall_ok:
                return {"viol": viol, "counters": cnt, "sigs": sorted(sigs), "sample": sample or None,
                        "inconclusive": "thread run exceeded its wall-clock limit"}
            if s.deadlock:
                cnt["deadlocks"] += 1
                kind = "livelock" if s.deadlock and s.deadlock[0][0] == "livelock" else "deadlock"
                v(f"{kind}:{fam}", f"no thread enabled and no virtual deadline: {s.deadlock}", ctx)
                continue
            for name, o in outs.items():
                if o.kind == "exc":
                    v(f"thread-died:{fam}:{exc_name(o.exc)}", f"{name}: {o.exc!r}", ctx)
            for rec in wl.records:
                if rec.get("end") == "ok":
                    cnt["requests_ok"] += 1
                elif (type(rec.get("exc")).__name__ == "PoolTimeout" and rec.get("pool_timeout") is not None
                      and rec.get("t1", 0) - rec["t0"] >= rec["pool_timeout"] - 1e-9):
                    cnt["pool_timeouts"] += 1   # asked for, and the time had passed
                elif fam == "F5" and rec.get("exc") is not None and documented(rec["exc"]):
                    cnt["requests_failed_by_pool_close"] = cnt.get("requests_failed_by_pool_close", 0) + 1
                else:
                    cnt["requests_failed"] += 1
                    exc = rec.get("exc")
                    cls = "internal-error" if (exc is not None and not documented(exc)) else "request-failed"
                    v(f"{cls}:{fam}:{spec['proto']}:{exc_name(exc) if exc is not None else rec.get('end')}",
                      f"{rec['token']} ({rec['beh']}) to a well-behaved server ended {exc!r} under schedule {sched}", ctx)
            n, bad = wl.echo_violations()
            for kind, rec, msg in bad:
                v(f"crosstalk:{kind}:{fam}", msg, dict(ctx, token=rec["token"]))
            for key, det in ob.viol:
                if fam == "F5":
                    # a pool that is closed forgets its connections, also the ones a request is still establishing: what is
                    # open then is no longer "held by the pool" in any sense the limit speaks of
                    cnt["limit_findings_after_pool_close_ignored"] = cnt.get("limit_findings_after_pool_close_ignored", 0) + 1
                    continue
                v(f"limit:{key}:{fam}", f"{det}", ctx)
            for name, a in wl.wire_anomalies():
                if a["kind"].startswith("pipelined") or a["kind"] == "request-after-close":
                    v(f"desync:{a['kind']}:{fam}", f"{name}: {a}", ctx)
            if wl.net.busy_events:
                v(f"concurrent-io-on-one-stream:{fam}", f"{wl.net.busy_events} overlapping read/write calls on one network stream", ctx)
            try:
                c = pool_counts(wl.pool)
            except Exception as exc:  # noqa
                c = {}
                v(f"internal-error:{fam}:repr(pool):{exc_name(exc)}", f"repr(pool) raised {exc!r}", ctx)
            if c.get("req_active") or c.get("req_queued"):
                v(f"request-still-counted:{fam}", f"{c}", ctx)
            if s.switches:
                import hashlib
                sigs.add(hashlib.sha1(bytes(s.trace[:4000])).hexdigest()[:16])
            if not sample and s.switches > 5:
                sample.update({"spec": spec, "schedule": sched, "yield_points": s.steps, "line_events": s.line_events,
                               "context_switches": s.switches, "first_choices": s.trace[:60]})
            try:
                wl.pool.close()
            except Exception:  # noqa
                pass
    return {"viol": viol, "counters": cnt, "sigs": sorted(sigs), "sample": sample or None}


def plan(tier, seed):
    r = random.Random(seed * 2221 + 8)
    n_cases, n_specs, n_scheds = (64, 5, 6) if tier == "quick" else (640, 10, 16)
    cases = []
    for i in range(n_cases):
        specs = [gen_thread_spec(r) for _ in range(n_specs)]
        scheds = []
        for j in range(n_scheds):
            if j % 2 == 0:
                scheds.append({"strategy": "random", "p": r.choice([0.02, 0.1, 0.3]), "seed": r.randrange(1 << 30)})
            else:
                scheds.append({"strategy": "pct", "depth": r.choice([1, 2, 3]), "seed": r.randrange(1 << 30)})
        # two schedules per case with bytecode-level pre-emption inside the pool module (read-modify-write within one line)
        scheds[-1] = dict(scheds[-1], opcodes=True)
        scheds[-2] = dict(scheds[-2], opcodes=True, p=0.05)
        cases.append({"specs": specs, "scheds": scheds, "seed": r.randrange(1 << 30)})
    specs = sweep_specs()
    n_chunks = 8 if tier == "quick" else 16
    for spec in ([specs[0], specs[1], specs[4], specs[6]] if tier == "quick" else specs):
        for chunk in range(n_chunks):
            cases.append({"kind": "sweep", "spec": spec, "chunk": chunk, "n_chunks": n_chunks,
                          "occs": [1, 2, 4] if tier == "quick" else [1, 2, 3, 4, 6, 9, 14],
                          "seeds": [seed] if tier == "quick" else [seed, seed + 1], "seed": seed,
                          "pauses": [0.03] if tier == "quick" else [0.0, 0.015, 0.1]})
    return cases
