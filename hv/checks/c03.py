"""C03 — requests serialised faithfully. The bytes written to the simulated stream are
decoded by the harness's own strict HTTP/1.1 parser / the h2 server role and compared with
what the caller asked for, per transmission attempt, on first use and on reuse; illegal
heads must give LocalProtocolError with nothing of the request on the wire."""
from __future__ import annotations

import copy
import random

from .. import REPO  # noqa: F401
import httpcore

from .. import simnet, endpoints, gen
from ..world import mk_pool, API, run_flavor, guarded, exc_name

ID = "C03"
LEVEL = "exploration"
RULE = ("seeded requests: method tokens, origin-form targets and the 'target' extension (absolute-form, '*', "
        "authority-form), header lists (order, case, duplicates, with/without Host, Content-Length, "
        "Transfer-Encoding), bodies None / bytes / iterator with arbitrary chunking incl. empty chunks; sequences "
        "of 3 requests per pool (first use + reuse) on HTTP/1.1 and HTTP/2 in all three flavours; illegal heads "
        "(bad method / target / header name / header value); distinct+non-trivial = (proto, legal?, illegal kind, "
        "target form, host supplied?, framing supplied, body kind, position in sequence); the URL is passed as str, bytes or one "
        "httpcore.URL object kept by the caller for the whole sequence, and the caller's URL / header list / extensions must "
        "be unchanged after every call; origins named by DNS name / IPv4 / IPv6 literal on the default or another port, "
        "HTTP/1.1 also through a forwarding proxy (absolute-form target compared with the URL)")
ASSUMPTIONS = ["HTTP/1.1 wire decoded by the harness parser (no h11); HTTP/2 by the h2 library in the server role",
               "identical duplicate Content-Length values may be merged (protocol-equivalent)"]
REQUIRED = ["requests_legal", "oracle_wire", "requests_illegal", "oracle_illegal", "reuse_checked", "retransmissions_checked"]

HOSTS = ["o.test", "2001:db8::3", "o.test", "10.2.3.4", "o.test"]
METHODS = ["GET", "POST", "PUT", "DELETE", "PATCH", "OPTIONS", "FOO", "M-SEARCH", "get", "X_Y.Z!"]
HNAMES = ["Accept", "accept", "X-A", "x-a", "X-B", "Cookie", "Cookie", "User-Agent", "X-Custom-Header", "Te-x"]


def gen_request(r: random.Random, proto: str):
    q = {}
    q["method"] = r.choice(METHODS)
    path = "/" + "/".join("".join(r.choice("abcXYZ019-._~%41;=") for _ in range(r.randint(0, 5))) for _ in range(r.randint(0, 3)))
    path = path.replace("%4", "%41").replace("%411", "%41")
    if r.random() < 0.3:
        path += "?" + "".join(r.choice("abc=&19") for _ in range(r.randint(1, 6)))
    if r.random() < 0.08:
        # no path at all, but a query: 'http://host?x=1' asks for '/?x=1'
        path = "?" + "".join(r.choice("abc=&19") for _ in range(r.randint(1, 6)))
    q["path"] = path
    tk = r.random()
    q["target_ext"] = None
    if tk < 0.1:
        q["target_ext"] = "*"
    elif tk < 0.2:
        q["target_ext"] = "http://other.test:81/abs?x=1"
    elif tk < 0.25:
        q["target_ext"] = "o.test:443"
    elif tk < 0.3:
        q["target_ext"] = "/ext/target"
    hs = []
    for _ in range(r.randint(0, 5)):
        hs.append([r.choice(HNAMES), gen.rand_value(r, 16).decode("latin1") or "v"])
    host_kind = r.choice(["omit", "omit", "omit", "supply", "supply-case"])
    if host_kind == "supply":
        hs.insert(r.randint(0, len(hs)), ["Host", "custom.host:99"])
    elif host_kind == "supply-case":
        hs.insert(r.randint(0, len(hs)), ["hOsT", "o.test"])
    q["host_kind"] = host_kind
    bk = r.choice(["none", "none", "bytes", "bytes", "iter", "iter"])
    q["body_kind"] = bk
    chunks = []
    if bk == "bytes":
        n = r.choice([0, 1, 10, 1000, 70000])
        chunks = [n]
    elif bk == "iter":
        chunks = [r.choice([0, 0, 1, 2, 100, 5000, 20000]) for _ in range(r.randint(0, 5))]
    q["chunks"] = chunks
    q["bseed"] = r.randrange(1 << 30)
    fk = "omit"
    if bk != "none":
        fk = r.choice(["omit", "omit", "cl", "te"])
        if fk == "cl":
            hs.insert(r.randint(0, len(hs)), [r.choice(["Content-Length", "content-length"]), str(sum(chunks))])
        elif fk == "te":
            hs.insert(r.randint(0, len(hs)), [r.choice(["Transfer-Encoding", "transfer-encoding"]), "chunked"])
    q["framing_kind"] = fk
    q["headers"] = hs
    q["illegal"] = None
    return q


def make_illegal(r: random.Random, q: dict, proto: str = "h1"):
    kinds = ["method-space", "method-ctl", "target-space", "target-ctl", "hname-space", "hname-colon",
             "hname-empty", "hname-nl", "hvalue-crlf", "hvalue-lf", "hvalue-lead-space", "hvalue-nul"]
    if proto == "h2":
        # heads that are legal HTTP/1.1 but that HTTP/2 forbids (RFC 9113 8.2.2): the h2 package rejects them while it is
        # HPACK-encoding, i.e. after earlier (new) fields of the same head have entered the encoder's dynamic table
        kinds += ["h2-te", "h2-te"]
    kind = r.choice(kinds)
    q["illegal"] = kind
    if kind == "h2-te":
        q["headers"] = [[f"X-Fresh-{r.randrange(10 ** 6)}", f"v{r.randrange(10 ** 6)}"] for _ in range(r.randint(1, 3))] + \
            q["headers"] + [["TE", r.choice(["gzip", "deflate", "trailers, gzip"])]]
        return q
    if kind == "method-space":
        q["method"] = "GE T"
    elif kind == "method-ctl":
        q["method"] = "GET\r\nX: y"
    elif kind == "target-space":
        q["target_ext"] = "/a b"
    elif kind == "target-ctl":
        q["target_ext"] = "/a\r\nX-Injected: 1"
    elif kind == "hname-space":
        q["headers"].append(["X Y", "v"])
    elif kind == "hname-colon":
        q["headers"].append(["X:Y", "v"])
    elif kind == "hname-empty":
        q["headers"].append(["", "v"])
    elif kind == "hname-nl":
        q["headers"].append(["X\nY", "v"])
    elif kind == "hvalue-crlf":
        q["headers"].append(["X-Inj", "a\r\nX-Injected: 1"])
    elif kind == "hvalue-lf":
        q["headers"].append(["X-Inj", "a\nb"])
    elif kind == "hvalue-lead-space":
        q["headers"].append(["X-Inj", " a"])
    elif kind == "hvalue-nul":
        q["headers"].append(["X-Inj", "a\x00b"])
    return q


def body_bytes(q):
    r = random.Random(q["bseed"])
    return [gen.rand_body(r, n) for n in q["chunks"]]


def expected_h1(q, scheme, host, port):
    """Model of the wire request."""
    hs = [(k.encode("latin1"), v.encode("latin1")) for k, v in q["headers"]]
    lower = [k.lower() for k, _ in hs]
    if b"host" not in lower:
        dflt = {"http": 80, "https": 443}[scheme]
        hv = host.encode() if port in (None, dflt) else f"{host}:{port}".encode()
        hs = [(b"Host", hv)] + hs
    parts = body_bytes(q)
    body = b"".join(parts)
    if q["body_kind"] != "none" and b"content-length" not in lower and b"transfer-encoding" not in lower:
        if q["body_kind"] == "bytes":
            hs.append((b"Content-Length", b"%d" % len(body)))
        else:
            hs.append((b"Transfer-Encoding", b"chunked"))
    target = (q["target_ext"] or (("/" + q["path"]) if q["path"].startswith("?") else q["path"])).encode("latin1")
    return q["method"].encode("latin1"), target, hs, body


def run_case(case):
    flavor, proto = case["flavor"], case["proto"]
    h2 = proto == "h2"
    viol = []
    cnt = {"oracle_caller_objects": 0, "requests_legal": 0, "requests_illegal": 0, "oracle_wire": 0, "oracle_illegal": 0, "reuse_checked": 0,
           "body_bytes_checked": 0, "sequences": 0, "via_forward_proxy": 0, "direct": 0, "ip_literal_hosts": 0, "non_default_port": 0,
           "goaway_sequences": 0, "retransmissions_checked": 0}
    sigs = set()
    sample = {}

    def v(key, what, detail):
        if not any(x["key"] == key for x in viol):
            viol.append({"key": key, "what": what, "detail": detail})

    async def main():
        seq_no = 0
        for seq in case["seqs"]:
            cnt["sequences"] += 1
            net = simnet.Net()
            seq_no += 1
            # the origin is named by a DNS name, an IPv4 or an IPv6 literal, on the default or another port, and (HTTP/1.1)
            # reached directly or through a forwarding proxy (absolute-form targets)
            host = HOSTS[(seq_no + case["seed"]) % len(HOSTS)]
            uhost = f"[{host}]" if ":" in host else host
            dflt_port = 443 if h2 else 80
            port = dflt_port if (seq_no + case["seed"] // 7) % 3 else dflt_port + 8000
            via_proxy = (not h2) and (seq_no + case["seed"] // 3) % 4 == 0
            base = uhost if port == dflt_port else f"{uhost}:{port}"
            # every fourth HTTP/2 sequence: the server refuses the second request of each connection with a GOAWAY that
            # names the stream before it, so that request is transmitted twice - "every transmission attempt"
            goaway = h2 and (seq_no + case["seed"] // 5) % 4 == 0
            if goaway:
                seq = [x for x in seq if not x["illegal"]]
                cnt["goaway_sequences"] += 1
            origin = endpoints.Origin(net, host, port, tls=h2, alpn=["h2"] if h2 else None,
                                      h2_script={"actions": [{"when": ("head", 1), "do": "goaway", "last": "prev"}]} if goaway else None)
            if via_proxy:
                px = endpoints.HTTPProxy(net, "proxy.test", 3128, origins=[origin])
                pool = mk_pool(flavor, net, proxy={"url": "http://proxy.test:3128"}, http2=h2)
                seq = [dict(x, target_ext=None) if x["target_ext"] is not None and not x["illegal"] else x for x in seq]
            else:
                pool = mk_pool(flavor, net, http2=h2)
            cnt["via_forward_proxy" if via_proxy else "direct"] += 1
            cnt["ip_literal_hosts"] += host != "o.test"
            cnt["non_default_port"] += port != dflt_port
            api = API(flavor, pool, net)
            scheme = "https" if h2 else "http"
            legal_seen = 0
            pending_illegal = None
            shared_path = next((x["path"] for x in seq if not x["illegal"]), "/")
            shared_url = httpcore.URL(f"{scheme}://{base}{shared_path}")
            for pos, q in enumerate(seq):
                parts = body_bytes(q)
                if q["body_kind"] == "none":
                    content = None
                elif q["body_kind"] == "bytes":
                    content = b"".join(parts)
                else:
                    content = api.body(parts)
                ext = {"target": q["target_ext"].encode("latin1")} if q["target_ext"] is not None else {}
                # the URL is given as str, as bytes, or as one httpcore.URL object that the caller keeps using for the
                # whole sequence (the harness keeps its own model of what each request means)
                url_form = ("str", "bytes", "object")[(pos + seq_no) % 3]
                if url_form == "object":
                    q = dict(q, path=shared_path)
                    url_arg = shared_url
                elif url_form == "bytes":
                    url_arg = f"{scheme}://{base}{q['path']}".encode("latin1")
                else:
                    url_arg = f"{scheme}://{base}{q['path']}"
                hdr_arg = [(k.encode("latin1"), x.encode("latin1")) for k, x in q["headers"]]
                snap = (bytes(shared_url), shared_url.target, list(hdr_arg), copy.deepcopy(ext))
                wire_reqs = px.forwards if via_proxy else origin.requests
                before_reqs = len(wire_reqs)
                before_written = sum(t.written for t in net.transports)
                before_anom = len(origin.anomalies)

                async def scen():
                    r_ = await api.request(q["method"].encode("latin1"), url_arg, headers=hdr_arg,
                                           content=content, extensions=ext)
                    return r_.status

                out = await guarded(flavor, scen)
                ctx_early = {"flavor": flavor, "proto": proto, "position": pos}
                cnt["oracle_caller_objects"] += 1
                after = (bytes(shared_url), shared_url.target, list(hdr_arg), ext)
                for name, a_, b_ in zip(("url", "url-target", "headers", "extensions"), snap, after):
                    if a_ != b_:
                        v(f"caller-object-mutated:{name}", f"the caller's {name} changed from {a_!r} to {b_!r} during "
                          f"the call (URL given as {url_form})", {"flavor": flavor, "proto": proto, "position": pos})
                form = ("ext:" + ("*" if q["target_ext"] == "*" else "abs" if "://" in (q["target_ext"] or "") else "other")
                        ) if q["target_ext"] else "origin"
                ctx = {"request": {k: q[k] for k in ("method", "path", "target_ext", "headers", "body_kind", "chunks", "illegal")},
                       "flavor": flavor, "proto": proto, "position": pos}
                if h2 and not q["illegal"] and pending_illegal is not None:
                    # a head rejected by validation (nothing encoded, nothing sent) must not cost the HTTP/2 connection:
                    # the next legal request is carried by the same transport
                    n_before, kind_ = pending_illegal
                    pending_illegal = None
                    if kind_ != "h2-te" and out.kind == "ok" and len(net.transports) > max(n_before, 1):
                        v(f"illegal-head-cost-the-connection:h2:{kind_}", f"{len(net.transports)} transports after a rejected "
                          f"head and one legal request; the rejected head left the connection unusable", ctx_early)
                if q["illegal"]:
                    pending_illegal = (len(net.transports), q["illegal"])
                    cnt["requests_illegal"] += 1
                    cnt["oracle_illegal"] += 1
                    sigs.add(f"{proto}|illegal|{q['illegal']}|pos{min(pos, 1)}")
                    new_reqs = wire_reqs[before_reqs:]
                    wrote = sum(t.written for t in net.transports) - before_written
                    leaked = bool(new_reqs) or (not h2 and wrote > 0) or len(origin.anomalies) > before_anom
                    if out.kind == "ok":
                        v(f"illegal-accepted:{proto}:{q['illegal']}", f"illegal request head accepted and sent: status {out.value}", ctx)
                    elif out.kind == "exc" and not isinstance(out.exc, httpcore.LocalProtocolError):
                        v(f"illegal-wrong-exception:{proto}:{q['illegal']}:{exc_name(out.exc)}", repr(out.exc), ctx)
                    elif out.kind == "hang":
                        v(f"illegal-hang:{proto}:{q['illegal']}", "call hangs", ctx)
                    if leaked and out.kind != "ok":
                        v(f"illegal-bytes-on-wire:{proto}:{q['illegal']}",
                          f"request rejected ({out!r}) but {wrote} bytes / {len(new_reqs)} request heads reached the wire", ctx)
                    continue
                cnt["requests_legal"] += 1
                sigs.add(f"{proto}|legal|{form}|{'px' if via_proxy else 'direct'}|{'v6' if ':' in host else 'v4' if host[0].isdigit() else 'dns'}|host:{q['host_kind']}|fr:{q['framing_kind']}|{q['body_kind']}|pos{min(pos, 1)}")
                if goaway and out.kind == "exc" and isinstance(out.exc, httpcore.RemoteProtocolError) \
                        and any(getattr(x, "refused_by_goaway", False) for x in wire_reqs[before_reqs:]):
                    # the refusal is reported instead of a second transmission: always so for a body that can be read only
                    # once; for other bodies when the frames that follow the GOAWAY in the same read (credit for the body
                    # that is still being uploaded) make the h2 package reject the whole read, GOAWAY included
                    cnt["goaway_not_resent"] = cnt.get("goaway_not_resent", 0) + 1
                    if len(wire_reqs[before_reqs:]) != 1:
                        v("failed-request-was-resent", f"{len(wire_reqs[before_reqs:])} transmissions of a request that failed", ctx)
                    continue
                if out.kind != "ok":
                    v(f"legal-request-failed:{proto}:" + (exc_name(out.exc) if out.kind == "exc" else out.kind),
                      f"legal request not answered: {out!r}", ctx)
                    break
                new_reqs = wire_reqs[before_reqs:]
                if goaway and len(new_reqs) > 1:
                    # earlier transmission attempts, refused by GOAWAY: same head, and as much of the body as got out
                    final = [x for x in new_reqs if not getattr(x, "refused_by_goaway", False)]
                    for x in new_reqs:
                        if x in final:
                            continue
                        cnt["retransmissions_checked"] += 1
                        if not final or x.h2_headers != final[0].h2_headers:
                            v("retransmission-head-differs", f"{x.h2_headers!r} vs {final and final[0].h2_headers!r}", ctx)
                        elif not bytes(final[0].body).startswith(bytes(x.body)):
                            v("retransmission-body-not-a-prefix", f"{len(x.body)} bytes", ctx)
                    new_reqs = final
                if len(new_reqs) != 1:
                    v("wire-request-count", f"{len(new_reqs)} request heads on the wire for one call", ctx)
                    break
                w = new_reqs[0]
                cnt["oracle_wire"] += 1
                if pos > 0 and legal_seen > 0:
                    cnt["reuse_checked"] += 1
                legal_seen += 1
                method, target, hs, body = expected_h1(q, scheme, uhost, port)
                if via_proxy:
                    target = f"{scheme}://{base}".encode() + target
                    form = "absolute-via-proxy"
                    if w.tr >= 0 and net.transports[w.tr].target != ("proxy.test", 3128):
                        v("proxy-bypassed", f"connect_tcp{net.transports[w.tr].target}", ctx)
                cnt["body_bytes_checked"] += len(body)
                if len(origin.anomalies) > before_anom:
                    v("wire-malformed:" + origin.anomalies[before_anom]["kind"], repr(origin.anomalies[before_anom]), ctx)
                if w.method != method:
                    v("method-mismatch", f"{w.method!r} != {method!r}", ctx)
                if w.target != target:
                    v("target-mismatch:" + form, f"{w.target!r} != {target!r}", ctx)
                if bytes(w.body) != body:
                    v(f"body-mismatch:{proto}:{q['body_kind']}", f"wire body {len(w.body)} bytes != caller's {len(body)}", ctx)
                if not w.complete:
                    v("request-not-terminated", "request body never ended on the wire", ctx)
                if not h2:
                    hosts = [x for x in hs if x[0].lower() == b"host"]
                    rest = [x for x in hs if x[0].lower() != b"host"]
                    wh = list(w.headers)
                    if wh != hs and wh != hosts + rest:
                        names_w = sorted(k.lower() for k, _ in wh)
                        names_e = sorted(k.lower() for k, _ in hs)
                        if names_w != names_e:
                            extra = sorted(set(names_w) - set(names_e)) + ["-" + x.decode() for x in sorted(set(names_e) - set(names_w))]
                            v("h1-header-set-mismatch", f"wire {wh!r} vs expected {hs!r} ({extra})", ctx)
                        else:
                            v("h1-header-order-or-value-mismatch", f"wire {wh!r} vs expected {hs!r}", ctx)
                    if w.framing == "chunked" and any(n == 0 for n in w.chunk_sizes[:-1]):
                        v("h1-zero-chunk-mid-body", "empty chunk terminates body early", ctx)
                else:
                    raw = w.h2_headers
                    pseudo = [x for x in raw if x[0].startswith(b":")]
                    first_regular = next((i for i, x in enumerate(raw) if not x[0].startswith(b":")), len(raw))
                    if any(x[0].startswith(b":") for x in raw[first_regular:]):
                        v("h2-pseudo-after-regular", repr(raw), ctx)
                    authority = [x[1] for x in hs if x[0].lower() == b"host"][0]
                    want_pseudo = {b":method": method, b":scheme": scheme.encode(), b":authority": authority, b":path": target}
                    if sorted(pseudo) != sorted(want_pseudo.items()):
                        v("h2-pseudo-headers-mismatch", f"{pseudo!r} != {want_pseudo!r}", ctx)
                    want_regular = [(k.lower(), x) for k, x in hs if k.lower() not in (b"host", b"transfer-encoding")]
                    got_regular = raw[first_regular:]
                    # RFC 9113 8.2.3 lets a sender split / move cookie fields (the h2 package puts them
                    # last): compare the other fields in order and the cookie crumbs separately.
                    nc_w = [x for x in got_regular if x[0] != b"cookie"]
                    nc_e = [x for x in want_regular if x[0] != b"cookie"]
                    ck_w = b"; ".join(x[1] for x in got_regular if x[0] == b"cookie")
                    ck_e = b"; ".join(x[1] for x in want_regular if x[0] == b"cookie")
                    if nc_w != nc_e or ck_w != ck_e:
                        v("h2-regular-headers-mismatch", f"{got_regular!r} != {want_regular!r}", ctx)
                if not sample:
                    sample.update({"request": ctx["request"], "wire": w.summary()})
            await api.close_pool()

    run_flavor(flavor, None, main, seed=case["seed"])
    return {"viol": viol, "counters": cnt, "sigs": sorted(sigs), "sample": sample or None}


def plan(tier, seed):
    r = random.Random(seed * 1009 + 3)
    n_cases, per = (48, 12) if tier == "quick" else (480, 40)
    cases = []
    flavors = ["asyncio", "trio", "sync"]
    for i in range(n_cases):
        proto = "h2" if i % 2 else "h1"
        seqs = []
        for _ in range(per):
            seq = []
            for pos in range(3):
                q = gen_request(r, proto)
                if r.random() < 0.25:
                    q = make_illegal(r, q, proto)
                seq.append(q)
            seqs.append(seq)
        cases.append({"flavor": flavors[i % 3], "proto": proto, "seqs": seqs, "seed": r.randrange(1 << 30)})
    return cases
