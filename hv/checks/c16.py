"""C16 — timeouts applied, and to the right operations.

O1 (ledger): with distinct configured values every simulated connect/start_tls carries the
connect value, every read the read value, every write the write value (SOCKS negotiation:
any configured value, never None); absent/None keys give None.
O2 (virtual clock): a queued request with pool timeout P raises PoolTimeout at exactly
t0+P unless a connection is freed earlier, and is then forgotten by the pool."""
from __future__ import annotations

import random

import anyio

from .. import REPO  # noqa: F401
import httpcore

from .. import simnet, endpoints, runners
from ..scenarios import Sc, TYPES, victim_body, hold_body
from ..simnet import CALL
from ..world import run_flavor, guarded, exc_name, pool_counts, is_async, run_threaded, run_sync, API, mk_pool

ID = "C16"
LEVEL = "exploration"
RULE = ("O1: 13 connection types x 3 request shapes (two of them against interim 1xx responses and 23-byte reads; on HTTP/2 also a 200 kB "
        "upload, whose flow-control waits are reads in the middle of sending) x {first use, "
        "reuse} x 3 flavours x timeout configurations "
        "(all distinct, single key only, explicit None, absent); every recorded op is one oracle evaluation. "
        "O2: holder/waiter histories on max_connections=1 with release time S and pool timeouts P over orderings "
        "S<P, S=P-eps, S=P+eps, S>P, P=0, several waiters, on asyncio, trio and threads under the controlled "
        "scheduler; plus the real synchronous back-end over loopback sockets (direct, TLS, CONNECT tunnel, SOCKS5): the timeout in "
        "force on the socket at every connect / handshake / send / recv; and the real asynchronous back-ends: the deadline given to "
        "anyio.fail_after / trio.fail_after by every operation, for distinct, absent and zero timeouts; distinct+non-trivial = (type, shape, flavour, config) "
        "for O1 and (flavour, ordering) for O2")
ASSUMPTIONS = ["virtual clock shared by the event loop / thread scheduler and httpcore's time.monotonic",
               "proxy CONNECT exchange is an ordinary HTTP exchange (read/write values apply); only SOCKS negotiation "
               "may use any configured value"]
REQUIRED = ["o1_ops_checked", "o1_negotiation_ops", "o2_histories", "o2_timeouts_observed", "o2_successes_observed"]

CONFIGS = {
    "all": {"connect": 11.0, "read": 13.0, "write": 17.0, "pool": 19.0},
    "connect-only": {"connect": 11.0},
    "read-only": {"read": 13.0},
    "write-only": {"write": 17.0},
    "explicit-none": {"connect": None, "read": None, "write": None, "pool": None},
    "absent": None,
}


def run_o1(case):
    flavor, ctype = case["flavor"], case["ctype"]
    viol = []
    cnt = {"o1_ops_checked": 0, "o1_negotiation_ops": 0, "o1_runs": 0, "o1_reuse_ops": 0}
    sigs = set()
    sample = {}

    def v(key, what, detail):
        if not any(x["key"] == key for x in viol):
            viol.append({"key": key, "what": what, "detail": detail})

    async def main():
        for cfg_name, cfg in CONFIGS.items():
            for shape in ("get", "post3", "stream-partial") + (("post-big",) if TYPES[ctype].get("http2") else ()):
                # interim 1xx responses and 23-byte reads: many reads are needed for every head and body, each of which
                # has to carry the read timeout
                hard = shape not in ("get", "post-big")
                sc = Sc(ctype, flavor, resp_delay=0.0, timeouts=cfg, interim=hard)
                net = sc.net
                if hard:
                    net.segmentation = simnet.Segmentation("fixed", 23)
                socks = sc.t.get("proxy") == "socks5"

                async def scen():
                    await victim_body(sc, shape, "first")
                    await victim_body(sc, shape, "second")  # reuse
                    return True
                out = await guarded(flavor, scen)
                cnt["o1_runs"] += 1
                if out.kind != "ok":
                    v(f"o1-request-failed:{ctype}:{exc_name(out.exc) if out.kind == 'exc' else out.kind}",
                      f"{out!r}", {"case": case, "config": cfg_name, "shape": shape})
                    continue
                want = {"connect": (cfg or {}).get("connect"), "start_tls": (cfg or {}).get("connect"),
                        "read": (cfg or {}).get("read"), "write": (cfg or {}).get("write")}
                configured = [x for x in (cfg or {}).values() if x is not None]
                nego_phase = {}
                for e in net.events:
                    ev = e["ev"]
                    if not ev.endswith(".call") or ev == "close.call":
                        continue
                    kind = ev[:-5]
                    if kind not in want:
                        continue
                    cnt["o1_ops_checked"] += 1
                    if e["call"] == "second":
                        cnt["o1_reuse_ops"] += 1
                    got = e.get("timeout")
                    # SOCKS negotiation = reads/writes on the proxy transport before the tunnel is up
                    nego = False
                    if socks and kind in ("read", "write"):
                        tr = net.transports[e["tr"]]
                        sess = tr.handler.rec if hasattr(tr.handler, "rec") else None
                        done_seq = nego_phase.get(e["tr"])
                        if done_seq is None:
                            # find the seq of the socks.request success on this transport
                            done = [x["seq"] for x in net.events if x["ev"] == "socks.request" and x["tr"] == e["tr"]]
                            # the reply to the request is read after it: negotiation ends at the first read.ret after
                            after = [x["seq"] for x in net.events if done and x["seq"] > done[0] and
                                     x["ev"] == "read.ret" and x["tr"] == e["tr"]]
                            done_seq = after[0] if after else 10 ** 9
                            nego_phase[e["tr"]] = done_seq
                        nego = e["seq"] <= done_seq
                    ctx = {"case": case, "config": cfg_name, "shape": shape, "op": kind, "got": got,
                           "expected": want[kind], "negotiation": nego, "call": e["call"]}
                    if nego:
                        cnt["o1_negotiation_ops"] += 1
                        full = cfg is not None and all(cfg.get(k) is not None for k in ("connect", "read", "write"))
                        if full and got is None:
                            v(f"socks-negotiation-{kind}-without-timeout", f"SOCKS negotiation {kind} issued with "
                              f"timeout=None although {cfg} is configured", ctx)
                        elif got is not None and got not in configured:
                            v(f"socks-negotiation-{kind}-unknown-timeout", f"{got!r} is not a configured value", ctx)
                        continue
                    if got != want[kind]:
                        v(f"wrong-timeout:{kind}:{'none' if got is None else 'other'}",
                          f"{ctype}/{shape}/{cfg_name}: {kind} issued with timeout={got!r}, expected {want[kind]!r}", ctx)
                sigs.add(f"o1|{ctype}|{shape}|{flavor}|{cfg_name}")
                if not sample:
                    sample.update({"type": ctype, "config": cfg, "ops": [(e["ev"], e.get("timeout")) for e in net.events
                                                                       if e["ev"].endswith(".call")][:12]})
                await sc.api.close_pool()

    run_flavor(flavor, None, main, seed=case["seed"])
    return {"viol": viol, "counters": cnt, "sigs": sorted(sigs), "sample": sample or None}


ORDERINGS = [
    # (name, holder release S, [(arrival t0, pool timeout P)])
    ("S<P", 2.0, [(0.5, 5.0)]),
    ("S>P", 5.0, [(0.5, 2.0)]),
    ("S=P-eps", 3.499, [(0.5, 3.0)]),
    ("S=P+eps", 3.501, [(0.5, 3.0)]),
    ("two-waiters-one-times-out", 4.0, [(0.5, 1.0), (0.6, 10.0)]),
    ("two-waiters-both-time-out", 9.0, [(0.5, 1.0), (0.25, 2.5)]),
    ("three-waiters-fifo", 2.0, [(0.1, 9.0), (0.2, 9.0), (0.3, 0.5)]),
    ("P=0-busy", 2.0, [(0.5, 0.0)]),
    ("P=None", 3.0, [(0.5, None)]),
]


def run_o2(case):
    flavor = case["flavor"]
    viol = []
    cnt = {"o2_histories": 0, "o2_timeouts_observed": 0, "o2_successes_observed": 0, "o2_zero_timeout_free": 0,
           "o2_requeue_histories": 0}
    sigs = set()
    sample = {}
    EPS = 1e-6

    def v(key, what, detail):
        if not any(x["key"] == key for x in viol):
            viol.append({"key": key, "what": what, "detail": detail})

    def judge(name, S, waiters, t_start, results, counts_after):
        cnt["o2_histories"] += 1
        sigs.add(f"o2|{flavor}|{name}")
        # model: single slot, FIFO hand-over; holder releases at S; each served waiter holds 0 seconds
        free_at = S
        for i, (t0, P) in enumerate(waiters):
            r = results.get(f"w{i}")
            ctx = {"flavor": flavor, "ordering": name, "S": S, "waiter": i, "t0": t0, "P": P, "observed": repr(r)}
            if r is None:
                v("o2-waiter-never-finished", f"waiter {i} never finished", ctx)
                continue
            kind, t_end = r
            t_rel = t_end - t_start
            expect_timeout = P is not None and t0 + P < free_at - EPS
            if expect_timeout:
                cnt["o2_timeouts_observed"] += 1 if kind == "PoolTimeout" else 0
                if kind != "PoolTimeout":
                    v("o2-timeout-missing", f"waiter arrived {t0} with pool timeout {P}, slot free at {free_at}: "
                      f"expected PoolTimeout at {t0 + P}, got {kind} at {t_rel}", ctx)
                elif abs(t_rel - (t0 + P)) > 1e-3:
                    v("o2-timeout-wrong-instant:" + ("early" if t_rel < t0 + P else "late"),
                      f"PoolTimeout raised at {t_rel}, expected {t0 + P}", ctx)
            else:
                cnt["o2_successes_observed"] += 1 if kind == "ok" else 0
                if kind != "ok":
                    v("o2-spurious-" + kind, f"waiter arrived {t0} with pool timeout {P}, slot free at {free_at}: "
                      f"expected success, got {kind} at {t_rel}", ctx)
                elif t_rel < free_at - 1e-3:
                    v("o2-served-before-slot-free", f"served at {t_rel} < {free_at}", ctx)
                # it now occupies the slot for its own exchange (zero think time)
        if counts_after.get("req_active") or counts_after.get("req_queued"):
            v("o2-timed-out-request-still-counted", f"pool after all callers ended: {counts_after}",
              {"flavor": flavor, "ordering": name})

    def build():
        net = simnet.Net()
        net.log_events = False
        endpoints.Origin(net, "o.test", 80)
        pool = mk_pool(flavor, net, max_connections=1)
        return net, pool, API(flavor, pool, net)

    if is_async(flavor):
        async def main():
            for name, S, waiters in ORDERINGS:
                net, pool, api = build()
                results = {}
                t_start = net.now()

                async def holder():
                    resp, cm = await api.open("GET", "http://o.test/h")
                    await anyio.sleep(S)
                    await api.close(cm)

                async def waiter(i, t0, P):
                    await anyio.sleep(t0)
                    try:
                        ext = {"timeout": {"pool": P}} if P is not None else {}
                        await api.request("GET", "http://o.test/w", extensions=ext)
                        results[f"w{i}"] = ("ok", net.now())
                    except httpcore.PoolTimeout:
                        results[f"w{i}"] = ("PoolTimeout", net.now())
                    except Exception as exc:  # noqa
                        results[f"w{i}"] = (exc_name(exc), net.now())

                async def body():
                    async with anyio.create_task_group() as tg:
                        tg.start_soon(holder)
                        for i, (t0, P) in enumerate(waiters):
                            tg.start_soon(waiter, i, t0, P)
                    return True
                await guarded(flavor, body)
                judge(name, S, waiters, t_start, results, pool_counts(pool))
                if not sample:
                    sample.update({"ordering": name, "S": S, "waiters": waiters,
                                   "results": {k: (a, round(b - t_start, 6)) for k, (a, b) in results.items()}})
                # P=0 with free capacity succeeds
                net, pool, api = build()
                out = await guarded(flavor, lambda: api.request("GET", "http://o.test/z", extensions={"timeout": {"pool": 0}}))
                cnt["o2_zero_timeout_free"] += 1
                if out.kind != "ok":
                    v("o2-zero-pool-timeout-fails-with-free-capacity", repr(out), {"flavor": flavor})
                await api.close_pool()
            # bounce: two requests share a "maybe HTTP/2" connection that turns out HTTP/1.1; the second is re-queued
            # at tb=1.0 and must still time out (between t0+P and tb+P), not wait for ever
            net = simnet.Net()
            net.log_events = False
            net.latency = lambda kind, idx: 1.0 if kind == "connect" else 0.0
            endpoints.Origin(net, "o.test", 443, tls=True, alpn=["http/1.1"])
            pool = mk_pool(flavor, net, max_connections=1, http2=True)
            api = API(flavor, pool, net)
            res = {}
            t_start = net.now()

            async def holder2():
                resp, cm = await api.open("GET", "https://o.test/h")
                await anyio.sleep(10.0)
                await api.close(cm)

            async def waiter2():
                await anyio.sleep(0.5)
                try:
                    await api.request("GET", "https://o.test/w", extensions={"timeout": {"pool": 2.0}})
                    res["w"] = ("ok", net.now() - t_start)
                except Exception as exc:  # noqa
                    res["w"] = (type(exc).__name__, net.now() - t_start)

            async def body2():
                async with anyio.create_task_group() as tg:
                    tg.start_soon(holder2)
                    tg.start_soon(waiter2)
                return True
            await guarded(flavor, body2)
            cnt["o2_histories"] += 1
            cnt["o2_requeue_histories"] += 1
            sigs.add(f"o2|{flavor}|bounce-requeue")
            kind, t_rel = res.get("w", ("never", -1))
            if kind != "PoolTimeout" or not (2.5 - 1e-3 <= t_rel <= 3.0 + 1e-3):
                v("o2-requeued-request-timeout", f"re-queued request (arrived 0.5, pool timeout 2.0, bounced at 1.0, slot busy "
                  f"until 11.0) ended {kind} at {t_rel}; expected PoolTimeout within [2.5, 3.0]", {"flavor": flavor})
            else:
                cnt["o2_timeouts_observed"] += 1
            await api.close_pool()
            # queued, then bounced: the request first waits 2.7 s in the queue (pool full with another origin's
            # connection), is then handed a "maybe HTTP/2" connection together with another request, is bounced when that
            # turns out to be HTTP/1.1 (at 3.5) and queued again behind a response that stays open. Its pool timeout is
            # 5 s: it has used 2.7 s of it; PoolTimeout is due when it has been queued for 5 s in all (5.8) - or, reading the
            # timeout as a deadline from arrival, at 5.3 - but not 5 s after the bounce (8.5)
            net = simnet.Net()
            net.log_events = False
            net.latency = lambda kind, idx: 0.5 if kind == "connect" else 0.0
            endpoints.Origin(net, "o.test", 443, tls=True, alpn=["http/1.1"])
            endpoints.Origin(net, "p.test", 443, tls=True, alpn=["http/1.1"])
            pool = mk_pool(flavor, net, max_connections=1, http2=True)
            api = API(flavor, pool, net)
            res = {}
            t_start = net.now()

            async def holder3():
                resp, cm = await api.open("GET", "https://p.test/h")
                await anyio.sleep(3.0 - (net.now() - t_start))
                await api.close(cm)

            async def contender3(name, t0):
                # two requests for the same origin: both are handed the connection that may become HTTP/2; whichever
                # the connection serves first keeps its response open, the other one is bounced and queued again
                await anyio.sleep(t0)
                try:
                    resp, cm = await api.open("GET", f"https://o.test/{name}", extensions={"timeout": {"pool": 5.0}})
                    res[name] = ("ok", net.now() - t_start)
                    await anyio.sleep(20.0)
                    await api.close(cm)
                except Exception as exc:  # noqa
                    res[name] = (type(exc).__name__, net.now() - t_start)

            async def body3():
                async with anyio.create_task_group() as tg:
                    tg.start_soon(holder3)
                    tg.start_soon(contender3, "first", 0.7)
                    tg.start_soon(contender3, "w", 0.8)
                return True
            await guarded(flavor, body3)
            cnt["o2_histories"] += 1
            cnt["o2_requeue_histories"] += 1
            sigs.add(f"o2|{flavor}|queued-then-bounced")
            served = [n for n in ("first", "w") if res.get(n, ("never", -1))[0] == "ok"]
            if len(served) != 1 or abs(res[served[0]][1] - 3.5) > 1e-3:
                v("o2-requeued-request-timeout:nobody-served", f"two requests handed one connection at 3.0 that turns out to be "
                  f"HTTP/1.1 at 3.5: exactly one of them should be served then; outcomes {res}", {"flavor": flavor})
            else:
                loser = "w" if served[0] == "first" else "first"
                t0 = 0.8 if loser == "w" else 0.7
                kind, t_rel = res.get(loser, ("never", -1))
                sigs.add(f"o2|{flavor}|queued-then-bounced|bounced:{loser}")
                # the half second between 3.0 and 3.5 was spent inside a connection, not in the queue: the request has been
                # queued for its 5 s at t0 + 5.5 - "not earlier, not later"
                if kind != "PoolTimeout" or abs(t_rel - (t0 + 5.5)) > 1e-3:
                    v("o2-requeued-request-timeout:" + ("late" if kind == "PoolTimeout" and t_rel > t0 + 5.5 else
                                                        "early" if kind == "PoolTimeout" else "other"),
                      f"request queued at {t0} with pool timeout 5.0, handed a connection at 3.0, bounced at 3.5 and queued again: "
                      f"ended {kind} at {t_rel}; it has been queued for 5 s in all at {t0 + 5.5} (the time inside the connection "
                      f"is not queue time)", {"flavor": flavor, "bounced": loser})
                else:
                    cnt["o2_timeouts_observed"] += 1
            await api.close_pool()
            # bounced more than once: one HTTP/1.1 connection (max_connections=1), three callers that each hold it for 0.6 s
            # stand in line before the victim (pool timeout 1.5). Every time the connection goes idle it is offered to all
            # queued requests for the origin, the one queued first gets it, the others are turned away and queue again. The
            # victim's time in the queue adds up over all of its waits: PoolTimeout at 1.5, not later, not never.
            net, pool, api = build()
            t_start = net.now()
            res = {}

            async def holder3(i):
                await anyio.sleep(0.001 * i)
                resp, cm = await api.open("GET", f"http://o.test/h{i}")
                await anyio.sleep(0.6)
                await api.chunks(resp)
                await api.close(cm)

            async def victim3():
                await anyio.sleep(0.01)
                try:
                    await api.request("GET", "http://o.test/v", extensions={"timeout": {"pool": 1.5}})
                    res["v"] = ("ok", net.now() - t_start)
                except Exception as exc:  # noqa
                    res["v"] = (type(exc).__name__, net.now() - t_start)

            async def body3():
                async with anyio.create_task_group() as tg:
                    for i in range(3):
                        tg.start_soon(holder3, i)
                    tg.start_soon(victim3)
                return True
            await guarded(flavor, body3)
            cnt["o2_histories"] += 1
            cnt["o2_requeue_histories"] += 1
            sigs.add(f"o2|{flavor}|bounced-twice")
            kind, t_rel = res.get("v", ("never", -1))
            # (which of the requests that are offered the idle connection takes it is the scheduler's choice: the victim may
            # be served at 0.6 or 1.2 - what it may not do is wait beyond 1.51, or time out at any other instant)
            served_in_time = kind == "ok" and t_rel <= 1.51 + 5e-3
            if not served_in_time and (kind != "PoolTimeout" or abs(t_rel - 1.51) > 5e-3):
                v("o2-requeued-twice:" + ("late-or-never" if kind != "PoolTimeout" or t_rel > 1.51 else "early"),
                  f"request queued at 0.01 with pool timeout 1.5 behind three callers that hold the only connection for 0.6 s each "
                  f"(so it is turned away and queued again at 0.6 and 1.2) ended {kind} at {t_rel}; expected PoolTimeout at 1.51",
                  {"flavor": flavor})
            elif kind == "PoolTimeout":
                cnt["o2_timeouts_observed"] += 1
            await api.close_pool()
            for name, S, waiters in ORDERINGS[:0]:
                # P=0 with free capacity succeeds
                net, pool, api = build()
                out = await guarded(flavor, lambda: api.request("GET", "http://o.test/z", extensions={"timeout": {"pool": 0}}))
                cnt["o2_zero_timeout_free"] += 1
                if out.kind != "ok":
                    v("o2-zero-pool-timeout-fails-with-free-capacity", repr(out), {"flavor": flavor})
                await api.close_pool()
        run_flavor(flavor, None, main, seed=case["seed"])
    else:
        for si, (name, S, waiters) in enumerate(ORDERINGS):
            for sched_seed in range(case.get("sched_seeds", 3)):
                results = {}
                box = {}

                def setup(s):
                    net, pool, api = build()
                    box.update(net=net, pool=pool, t_start=s.now())

                    def holder():
                        with pool.stream("GET", "http://o.test/h") as resp:
                            s.sleep(S)
                        return True

                    def mk(i, t0, P):
                        def w():
                            s.sleep(t0)
                            try:
                                ext = {"timeout": {"pool": P}} if P is not None else {}
                                pool.request("GET", "http://o.test/w", extensions=ext)
                                results[f"w{i}"] = ("ok", s.now())
                            except httpcore.PoolTimeout:
                                results[f"w{i}"] = ("PoolTimeout", s.now())
                            except Exception as exc:  # noqa
                                results[f"w{i}"] = (exc_name(exc), s.now())
                        return w
                    callers = {"holder": holder}
                    for i, (t0, P) in enumerate(waiters):
                        callers[f"w{i}"] = mk(i, t0, P)
                    return callers
                s, outs, shim = run_threaded(setup, seed=case["seed"] + sched_seed * 977 + si, strategy="random", p=0.2)
                if s.deadlock:
                    v("o2-deadlock", f"threads deadlocked: {s.deadlock}", {"ordering": name, "flavor": flavor})
                judge(name, S, waiters, box["t_start"], results, pool_counts(box["pool"]))
        # zero timeout, free capacity
        from ..world import sync_env, sync_env_restore
        sync_env(None)
        try:
            net, pool, api = build()
            try:
                pool.request("GET", "http://o.test/z", extensions={"timeout": {"pool": 0}})
                cnt["o2_zero_timeout_free"] += 1
            except Exception as exc:  # noqa
                v("o2-zero-pool-timeout-fails-with-free-capacity", repr(exc), {"flavor": flavor})
        finally:
            sync_env_restore()
    return {"viol": viol, "counters": cnt, "sigs": sorted(sigs), "sample": sample or None}


def run_real(case):
    """The real synchronous back-end over loopback sockets: the timeout that is in force on the (raw or TLS) socket at
    every connect / handshake / send / recv, recorded by socket subclasses, must be the one the operation calls for."""
    from .. import realsock
    viol = []
    cnt = {k: 0 for k in REQUIRED}
    cnt["real_backend_ops_checked"] = 0
    sigs = []
    for mode, cfg in [(m_, c_) for m_ in case["modes"] for c_ in realsock.SYNC_LEDGER_CONFIGS]:
        res = realsock.sync_timeout_ledger(mode, cfg)
        cnt["real_backend_ops_checked"] += len(res["ledger"])
        cnt["o1_ops_checked"] += len(res["ledger"])
        sigs.append(f"real|sync|{mode}|{cfg}|{len(res['ledger'])}")
        ctx = {"mode": mode, "cfg": cfg, "ledger": [list(x) for x in res["ledger"]], "timeouts": realsock.SYNC_LEDGER_CONFIGS[cfg]}
        if res.get("status") != 200:
            viol.append({"key": f"real-backend:request-failed:{mode}:{cfg}", "what": f"{res.get('exc')!r}", "detail": ctx})
            continue
        kinds = {op for op, _ in res["ledger"]}
        need = {"connect"} | ({"tls.handshake", "tls.send", "tls.recv"} if mode.endswith("https") else {"raw.send", "raw.recv"})
        if not need <= kinds:
            return {"viol": viol, "counters": cnt, "sigs": sigs, "sample": None,
                    "inconclusive": f"socket recorder saw {sorted(kinds)} in mode {mode}, expected at least {sorted(need)}"}
        for op, t, want in realsock.judge_timeout_ledger(res):
            key = f"real-backend:wrong-timeout:{mode}:{op}" + ("" if cfg == "distinct" else f":{cfg}")
            if not any(x["key"] == key for x in viol):
                viol.append({"key": key, "what": f"{op} ran with timeout {t!r} on the socket, expected {want!r} (timeouts {cfg})", "detail": ctx})
    return {"viol": viol, "counters": cnt, "sigs": sigs, "sample": None}


def run_real_async(case):
    """The real asynchronous back-ends over loopback sockets: the deadline each operation hands to anyio.fail_after /
    trio.fail_after (recorded by a stand-in for the `anyio` / `trio` names inside the back-end modules), for distinct,
    absent and zero timeouts; and the class of the timeout error that a zero timeout produces."""
    from .. import realsock
    viol = []
    cnt = {k: 0 for k in REQUIRED}
    cnt["real_backend_ops_checked"] = 0
    sigs = []
    seen = set()
    for backend in ("anyio", "trio"):
        for cfg in realsock.ASYNC_LEDGER_CONFIGS:
            for tls in (False, True):
                res = realsock.async_timeout_ledger(backend, cfg, tls)
                cnt["real_backend_ops_checked"] += len(res["ledger"])
                cnt["o1_ops_checked"] += len(res["ledger"])
                sigs.append(f"real|{backend}|{cfg}|tls{int(tls)}|{len(res['ledger'])}")
                ctx = {"backend": backend, "config": cfg, "tls": tls, "ledger": [[f, repr(t)] for f, t in res["ledger"]],
                       "outcome": repr(res.get("exc") or res.get("status"))}
                if not res["ledger"]:
                    return {"viol": viol, "counters": cnt, "sigs": sigs, "sample": None,
                            "inconclusive": f"no fail_after() call recorded for {backend}/{cfg}"}
                for fn, t, want in realsock.judge_async_ledger(res):
                    key = f"real-backend:wrong-timeout:{backend}:{fn}:{'zero' if want == 0 else 'value'}"
                    if key not in seen:
                        seen.add(key)
                        viol.append({"key": key, "what": f"{backend} back-end: {fn} ran under fail_after({t!r}), expected {want!r} "
                                                         f"(timeouts {res['timeouts']})", "detail": ctx})
                want_exc = realsock.ASYNC_LEDGER_EXPECT[cfg]
                exc = res.get("exc")
                ok = (exc is None and res.get("status") == 200) if want_exc is None else isinstance(exc, want_exc)
                if not ok:
                    key = f"real-backend:wrong-outcome:{backend}:{cfg}:{type(exc).__name__ if exc is not None else res.get('status')}"
                    if key not in seen:
                        seen.add(key)
                        viol.append({"key": key, "what": f"{backend} back-end with timeouts {res['timeouts']}: {exc!r} / status "
                                                         f"{res.get('status')}, expected {want_exc.__name__ if want_exc else 200}",
                                     "detail": ctx})
    return {"viol": viol, "counters": cnt, "sigs": sigs, "sample": None}


def run_case(case):
    if case["kind"] == "o1":
        return run_o1(case)
    if case["kind"] == "real":
        return run_real(case)
    if case["kind"] == "real-async":
        return run_real_async(case)
    return run_o2(case)


def plan(tier, seed):
    cases = []
    for ctype in TYPES:
        for flavor in ("asyncio", "trio", "sync"):
            cases.append({"kind": "o1", "ctype": ctype, "flavor": flavor, "seed": seed})
    for flavor in ("asyncio", "trio", "sync"):
        cases.append({"kind": "o2", "flavor": flavor, "seed": seed, "sched_seeds": 3 if tier == "quick" else 40})
    cases.append({"kind": "real", "modes": ["direct-http", "direct-https", "tunnel-https", "socks-https"], "seed": seed})
    cases.append({"kind": "real-async", "seed": seed})
    return cases
