"""C20 — connection retries bounded and limited to establishment.

Exhaustive enumeration of attempt-outcome histories against a small executable model;
the oracle compares the observed sequence of connect / start_tls / sleep calls on the
simulated back-end and the final outcome with the model's."""
from __future__ import annotations

import itertools

from .. import REPO  # noqa: F401
import httpcore

from .. import simnet, endpoints
from ..world import mk_pool, API, run_flavor, exc_name

ID = "C20"
LEVEL = "fault_enumeration"
EXHAUSTIVE = True
RULE = ("every history = k retryable failures (each ConnectError|ConnectTimeout at the TCP or, for https, "
        "the TLS stage) for k in 0..N+1, followed by every terminal (success, each of 9 non-connect exceptions - a custom "
        "class, OSError, Read/Write/PoolTimeout, Read/WriteError, ProxyError, RemoteProtocolError - at TCP "
        "or TLS stage, or exhaustion) x N in 0..4 x {tcp, unix socket} x {http, https} x {asyncio, trio, "
        "sync}; successful histories are followed by an injected post-establishment read fault; a history "
        "is distinct by (flavour, transport, scheme, N, outcome tuple)")
ASSUMPTIONS = ["back-end failures are raised by the simulated NetworkBackend at the scripted attempt",
               "model: attempts<=N+1, delays 0,0.5,1,2,4 between attempts, last error re-raised, "
               "non-connect errors and post-establishment errors never retried"]
REQUIRED = ["histories", "oracle_sequence", "oracle_outcome", "post_establishment_faults"]

DELAYS = [0, 0.5, 1, 2, 4, 8, 16]


class Boom(Exception):
    pass


class ScriptBackendMixin:
    """Wraps the simulated back-end: the i-th establishment attempt follows outcomes[i]."""

    def _init(self, net, outcomes):
        self.net = net
        self.outcomes = list(outcomes)
        self.attempt = -1
        self.calls = []

    def _pre_connect(self):
        self.attempt += 1
        self.calls.append("connect")
        o = self.outcomes[self.attempt] if self.attempt < len(self.outcomes) else ("ok",)
        if o[0] == "tcp":
            raise _exc(o[1])
        return o

    def _wrap(self, stream, o):
        if o[0] == "tls":
            return FailingTLS(stream, o[1], self)
        return CountingTLS(stream, self)


OTHERS = {"Other": Boom, "ReadTimeout": httpcore.ReadTimeout, "WriteTimeout": httpcore.WriteTimeout,
          "PoolTimeout": httpcore.PoolTimeout, "ReadError": httpcore.ReadError, "WriteError": httpcore.WriteError,
          "OSError": OSError, "ProxyError": httpcore.ProxyError, "RemoteProtocolError": httpcore.RemoteProtocolError}


def _exc(name):
    if name in OTHERS:
        return OTHERS[name]("scripted non-connect failure")
    return {"ConnectError": httpcore.ConnectError("scripted"), "ConnectTimeout": httpcore.ConnectTimeout("scripted")}[name]


class CountingTLS:
    def __init__(self, stream, owner):
        self._s = stream
        self._o = owner

    def __getattr__(self, n):
        return getattr(self._s, n)

    def start_tls(self, *a, **k):
        self._o.calls.append("start_tls")
        return self._s.start_tls(*a, **k)


class FailingTLS(CountingTLS):
    def __init__(self, stream, exc, owner):
        super().__init__(stream, owner)
        self._exc = exc

    def start_tls(self, *a, **k):
        self._o.calls.append("start_tls")
        if hasattr(self._s, "aclose"):
            async def go():
                await self._s.aclose()
                raise _exc(self._exc)
            return go()
        self._s.close()
        raise _exc(self._exc)


class AsyncScript(simnet.SimAsyncBackend, ScriptBackendMixin):
    def __init__(self, net, outcomes):
        simnet.SimAsyncBackend.__init__(self, net)
        self._init(net, outcomes)

    async def connect_tcp(self, *a, **k):
        o = self._pre_connect()
        return self._wrap(await super().connect_tcp(*a, **k), o)

    async def connect_unix_socket(self, *a, **k):
        o = self._pre_connect()
        return self._wrap(await super().connect_unix_socket(*a, **k), o)

    async def sleep(self, seconds):
        self.calls.append(("sleep", seconds))
        await super().sleep(seconds)


class SyncScript(simnet.SimSyncBackend, ScriptBackendMixin):
    def __init__(self, net, outcomes):
        simnet.SimSyncBackend.__init__(self, net)
        self._init(net, outcomes)

    def connect_tcp(self, *a, **k):
        o = self._pre_connect()
        return self._wrap(super().connect_tcp(*a, **k), o)

    def connect_unix_socket(self, *a, **k):
        o = self._pre_connect()
        return self._wrap(super().connect_unix_socket(*a, **k), o)

    def sleep(self, seconds):
        self.calls.append(("sleep", seconds))
        super().sleep(seconds)


def model(n_retries, outcomes, https):
    """Expected (calls, final) for the outcome history."""
    calls = []
    left = n_retries
    i = 0
    while True:
        o = outcomes[i] if i < len(outcomes) else ("ok",)
        calls.append("connect")
        if o[0] == "tcp":
            failed = o[1]
        else:
            if https:
                calls.append("start_tls")
            failed = o[1] if o[0] == "tls" else None
        if failed is None:
            return calls, "ok"
        if failed in ("ConnectError", "ConnectTimeout"):
            if left <= 0:
                return calls, failed
            left -= 1
            calls.append(("sleep", DELAYS[i]))
            i += 1
            continue
        return calls, failed


def histories(n, https):
    retry = [("tcp", "ConnectError"), ("tcp", "ConnectTimeout")]
    if https:
        retry += [("tls", "ConnectError"), ("tls", "ConnectTimeout")]
    term = [("ok",)] + [("tcp", o) for o in OTHERS] + ([("tls", o) for o in OTHERS] if https else [])
    for k in range(0, n + 2):
        for pre in itertools.product(retry, repeat=k):
            if k == n + 1:
                yield list(pre) + [("ok",)]  # must never be consumed
            else:
                for t in term:
                    yield list(pre) + [t]


def run_case(case):
    flavor, n, kind, scheme = case["flavor"], case["n"], case["kind"], case["scheme"]
    https = scheme == "https"
    viol = []
    cnt = {"histories": 0, "oracle_sequence": 0, "oracle_outcome": 0, "post_establishment_faults": 0,
           "sleeps_observed": 0, "attempts_observed": 0}
    sigs = []
    sample = None
    for hist_no, hist in enumerate(histories(n, https)):
        net = simnet.Net()
        origin = endpoints.Origin(net, "o.test", 443 if https else 80, tls=https, alpn=["http/1.1"])
        if kind == "uds":
            net.add_uds("/sock", origin.factory)
        a = flavor != "sync"
        be = (AsyncScript if a else SyncScript)(net, hist)
        cls = httpcore.AsyncConnectionPool if a else httpcore.ConnectionPool
        # every other history is run with a trace callback on the request (the retry loop is wrapped in trace blocks whose
        # callbacks see the arguments of each attempt), every third one with socket options / a local address
        traced = hist_no % 2 == 1
        opts = {}
        if hist_no % 3 == 1:
            opts["socket_options"] = [(6, 1, 1)]
            if kind != "uds":
                opts["local_address"] = "127.0.0.9"
        pool = cls(network_backend=be, retries=n, uds="/sock" if kind == "uds" else None,
                   ssl_context=simnet.RecordingSSLContext(), **opts)
        trace_events = []
        if a:
            async def trace_cb(name, info):
                trace_events.append(name)
        else:
            def trace_cb(name, info):
                trace_events.append(name)
        api = API(flavor, pool, net)
        exp_calls, exp_final = model(n, hist, https)
        # post-establishment fault: the first read after establishment fails
        post = exp_final == "ok"
        if post:
            nops = sum(1 for c in exp_calls if c != "connect" and not isinstance(c, tuple)) + exp_calls.count("connect")
            # ops that reach simnet.begin_op: connects not scripted to fail at tcp + all start_tls that reach sim
            # simpler: fault on first read via latency-free plan set below
        res = {}

        async def scen():
            if post:
                # find op index of the first read dynamically: inject on kind
                orig = net.begin_op

                def begin(kind_, tr, **kw):
                    idx, fault = orig(kind_, tr, **kw)
                    if kind_ == "read" and not res.get("faulted"):
                        res["faulted"] = True
                        return idx, "ReadError"
                    return idx, fault
                net.begin_op = begin
            try:
                ext = {"trace": trace_cb} if traced else {}
                if hist_no % 4 >= 2:
                    # a connect timeout shorter than the later pauses of the schedule: the pauses are the schedule's, not the
                    # timeout's
                    ext["timeout"] = {"connect": (0.25, 1.0)[hist_no % 2], "read": 9.0, "write": 9.0, "pool": 9.0}
                r = await api.request("GET", f"{scheme}://o.test/", headers={"X-Token": "t"}, extensions=ext)
                res["final"] = "ok:%d" % r.status
            except Exception as exc:  # noqa
                res["final"] = type(exc).__name__
                res["exc"] = exc_name(exc)
            await api.close_pool()

        run_flavor(flavor, net, scen)
        cnt["histories"] += 1
        cnt["histories_traced"] = cnt.get("histories_traced", 0) + traced
        cnt["trace_events"] = cnt.get("trace_events", 0) + len(trace_events)
        sigs.append(f"{flavor}|{kind}|{scheme}|{n}|{hist}")
        obs = list(be.calls)
        cnt["attempts_observed"] += obs.count("connect")
        cnt["sleeps_observed"] += sum(1 for c in obs if isinstance(c, tuple))
        cnt["oracle_sequence"] += 1
        if obs != exp_calls:
            na, ne = obs.count("connect"), exp_calls.count("connect")
            if na > ne:
                mech = "too-many-attempts"
            elif na < ne:
                mech = "too-few-attempts"
            elif [c for c in obs if isinstance(c, tuple)] != [c for c in exp_calls if isinstance(c, tuple)]:
                mech = "wrong-delays"
            else:
                mech = "wrong-call-sequence"
            viol.append({"key": f"sequence:{mech}", "what": f"retries={n} history={hist}: observed {obs}, model {exp_calls}",
                         "detail": {"case": case, "history": hist}})
        cnt["oracle_outcome"] += 1
        if post:
            cnt["post_establishment_faults"] += 1
            want = "ReadError"
        else:
            want = OTHERS[exp_final].__name__ if exp_final in OTHERS else exp_final
        if res.get("final") != want:
            viol.append({"key": f"outcome:{'post-establishment' if post else 'establishment'}",
                         "what": f"retries={n} history={hist}: final {res.get('final')} ({res.get('exc')}), model {want}",
                         "detail": {"case": case, "history": hist}})
        if sample is None and len(hist) > 1:
            sample = {"case": case, "history": hist, "observed_calls": obs, "final": res.get("final")}
    seen = set()
    out = []
    for x in viol:
        if x["key"] not in seen:
            seen.add(x["key"])
            out.append(x)
    return {"viol": out, "counters": cnt, "sigs": sigs, "sample": sample}


def plan(tier, seed):
    cases = []
    for flavor in ("asyncio", "trio", "sync"):
        for n in range(0, 5):
            for kind in ("tcp", "uds"):
                for scheme in ("http", "https"):
                    cases.append({"flavor": flavor, "n": n, "kind": kind, "scheme": scheme})
    # big ones first for load balance
    cases.sort(key=lambda c: -c["n"] * (2 if c["scheme"] == "https" else 1))
    return cases
