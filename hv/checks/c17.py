"""C17 — Upgrade / CONNECT hand-over loses no bytes. The stream handed to the caller must
yield exactly the bytes the endpoint sent after the response head, then live data, for
every cut of head+data into reads and every max_bytes sequence; the connection is never
reused."""
from __future__ import annotations

import random

from .. import REPO  # noqa: F401
import httpcore

from .. import simnet, endpoints
from ..endpoints import Resp
from ..simnet import Segmentation
from ..world import mk_pool, API, run_flavor, guarded, exc_name, pool_counts

ID = "C17"
LEVEL = "exploration"
RULE = ("(kind in {101 upgrade, CONNECT 200/204/299, tunnel proxy}) x post-head data length in {0,1,5,64,300} x "
        "segmentation (all-at-once, 1 byte, every single cut position of head+data, seeded random) x max_bytes "
        "sequences from {1,2,3,7,len-1,len,len+1,65536} x flavours; distinct+non-trivial = (kind, data length, "
        "segmentation kind, cut position class (in head / at boundary / in data), max_bytes pattern)")
ASSUMPTIONS = ["a TLS server never speaks before ClientHello, so no bytes trail the proxy's own CONNECT reply"]
REQUIRED = ["handovers", "oracle_bytes", "oracle_live", "oracle_not_reused", "cuts"]


HEAD_EXTRA = []  # extra header fields of the switching response (set per case: e.g. a Content-Length, which has no meaning there)


def _mk(net, kind, after: bytes, status: int):
    def responder(req, origin):
        if req.method not in (b"CONNECT",) and req.target != b"/ws":
            return endpoints.echo_responder(req, origin)
        if kind == "upgrade":
            return Resp(101, b"Switching Protocols", [(b"Connection", b"upgrade"), (b"Upgrade", b"hv")] + list(HEAD_EXTRA), b"",
                        framing="none", after=after)
        return Resp(status, b"OK", [(b"X-P", b"1")] + list(HEAD_EXTRA), b"", framing="none", after=after)

    o = endpoints.Origin(net, "o.test", 80, responder=responder)

    def live(conn, data):
        conn.tr.send(b"pong:" + data)

    o.on_upgraded_data = live
    return o


async def _handover(flavor, kind, after, status, seg, sizes, read_body_first=False, write_fault=None):
    net = simnet.Net()
    net.log_events = False
    net.segmentation = seg
    o = _mk(net, kind, after, status)
    if write_fault is not None:
        # the server answers as soon as it has the head; one of the later writes of the request (body chunk, end of
        # message) fails - httpcore deliberately ignores that and reads the response
        o.early = True
        net.faults[write_fault] = "WriteErrorSoft"
    pool = mk_pool(flavor, net)
    api = API(flavor, pool, net)
    info = {}

    async def scen():
        if kind == "upgrade" and write_fault is not None:
            resp, cm = await api.open("POST", "http://o.test/ws", headers=[("Connection", "upgrade"), ("Upgrade", "hv")],
                                      content=api.body([b"part-one", b"part-two"]))
        elif kind == "upgrade":
            resp, cm = await api.open("GET", "http://o.test/ws", headers=[("Connection", "upgrade"), ("Upgrade", "hv")])
        else:
            resp, cm = await api.open("CONNECT", "http://o.test/", extensions={"target": b"dest.test:443"})
        info["status"] = resp.status
        if read_body_first:
            # the (empty) body of the 101 / CONNECT response may be read before the stream is taken over
            info["body"] = b"".join(await api.chunks(resp))
        ns = resp.extensions["network_stream"]
        got = bytearray()
        reads = []
        i = 0
        while len(got) < len(after):
            m = sizes[i % len(sizes)]
            i += 1
            d = await api.ns_read(ns, m, 5.0)
            reads.append((m, len(d)))
            if len(d) > m:
                info["overlong"] = (m, len(d))
            if not d:
                break
            got += d
        info["leading"] = bytes(got)
        info["reads"] = reads
        if write_fault is not None:
            await api.close(cm)
            return True
        await api.ns_write(ns, b"ping", 5.0)
        live = bytearray()
        while len(live) < 9:
            d = await api.ns_read(ns, 65536, 5.0)
            if not d:
                break
            live += d
        info["live"] = bytes(live)
        await api.close(cm)
        info["after_close"] = pool_counts(pool)
        info["conn_states"] = [c.info() for c in pool.connections]
        n_before = len(net.transports)
        r2 = await api.request("GET", "http://o.test/again")
        info["second_status"] = r2.status
        info["new_transport"] = len(net.transports) - n_before
        return True

    out = await guarded(flavor, scen)
    info["written_after"] = bytes(o.conns[0].raw_after_upgrade) if o.conns else None
    info["first_closed"] = net.transports[0].closed if net.transports else None
    try:
        await api.close_pool()
    except Exception:  # noqa
        pass
    return out, info, net


async def _tunnel(flavor, seg):
    net = simnet.Net()
    net.log_events = False
    net.segmentation = seg
    o = endpoints.Origin(net, "o.test", 443, tls=True, alpn=["http/1.1"], register=False)
    endpoints.HTTPProxy(net, "proxy.test", 8080, origins=[o])
    pool = mk_pool(flavor, net, proxy={"url": "http://proxy.test:8080"})
    api = API(flavor, pool, net)

    async def scen():
        r = await api.request("GET", "https://o.test/x", headers=[("X-Token", "tk")])
        return r.status, r.content

    out = await guarded(flavor, scen)
    await api.close_pool()
    return out, o, net


def run_case(case):
    flavor, kind, n_after, status = case["flavor"], case["kind"], case["after"], case["status"]
    r = random.Random(case["seed"])
    after = payload(case.get("payload", "arith"), n_after)
    # a 101 / a 2xx reply to CONNECT has no body whatever its head says (RFC 9110 9.3.6, 15.2.2): some proxies send a
    # Content-Length all the same
    HEAD_EXTRA[:] = [(b"Content-Length", b"%d" % case["head_cl"])] if case.get("head_cl") is not None else []
    viol = []
    cnt = {"handovers": 0, "oracle_bytes": 0, "oracle_live": 0, "oracle_not_reused": 0, "cuts": 0, "bytes_compared": 0,
           "tunnel_runs": 0, "write_fault_handovers": 0}
    sigs = set()
    sample = {}

    def v(key, what, detail):
        if not any(x["key"] == key for x in viol):
            viol.append({"key": key, "what": what, "detail": detail})

    L = max(n_after, 1)
    size_sets = [[65536], [1], [2, 3], [7], [max(L - 1, 1)], [L], [L + 1], [1, 65536], [3, 1, 7]]
    if n_after > 5000:
        # byte-sized reads of a large hand-over only cost time: sizes around the chunk and buffer boundaries instead
        size_sets = [[65536], [4096], [1000, 3], [max(L - 1, 1)], [L], [L + 1], [16384], [65535], [1, 65536]]

    async def main():
        if kind == "tunnel":
            out, o, net = await _tunnel(flavor, Segmentation("all"))
            wire = net.transports[0].produced
            segs = [("all", Segmentation("all")), ("fixed1", Segmentation("fixed", 1))] + \
                   [("cut", Segmentation("cuts", [c])) for c in range(1, wire)]
            for name, seg in segs:
                out, o, net = await _tunnel(flavor, seg)
                cnt["tunnel_runs"] += 1
                cnt["handovers"] += 1
                cnt["oracle_bytes"] += 1
                cnt["oracle_live"] += 1
                cnt["oracle_not_reused"] += 1
                if name == "cut":
                    cnt["cuts"] += 1
                sigs.add(f"tunnel|{name}")
                if out.kind != "ok" or out.value[0] != 200 or not out.value[1].startswith(b"echo:tk:"):
                    v("tunnel-request-failed:" + (exc_name(out.exc) if out.kind == "exc" else out.kind),
                      f"request through CONNECT tunnel failed under segmentation {seg.describe()}: {out!r}",
                      {"seg": seg.describe(), "flavor": flavor})
            sample.update({"kind": "tunnel", "proxy_wire_len": wire})
            return
        # learn head length
        out, info, net = await _handover(flavor, kind, after, status, Segmentation("all"), [65536])
        wire = net.transports[0].produced if net.transports else 0
        head_len = wire - n_after - (9 if info.get("live") else 0)
        segs = [("all", Segmentation("all")), ("fixed1", Segmentation("fixed", 1)),
                ("random", Segmentation("random", rng=random.Random(case["seed"])))]
        cut_at = [c for c in range(1, head_len + n_after + 1) if n_after <= 64 or c >= head_len - 4]
        if len(cut_at) > 400:
            # large hand-overs: every cut around the head/data boundary, a seeded sample of the rest, and the last bytes
            keep = set(cut_at[:40]) | set(cut_at[-8:]) | set(random.Random(case["seed"] + 1).sample(cut_at, 60))
            cut_at = sorted(keep)
        for c in cut_at:
            segs.append(("cut", Segmentation("cuts", [c])))
        # a suppressed write error while the request was being sent must not cost the hand-over its leading bytes
        if kind == "upgrade" and n_after:
            for wf in (2, 3, 4):
                for sizes in ([65536], [1], [3, 7]):
                    out, info, net = await _handover(flavor, kind, after, status, Segmentation("all"), sizes, write_fault=wf)
                    cnt["handovers"] += 1
                    cnt["write_fault_handovers"] += 1
                    ctx = {"kind": kind, "status": status, "after_len": n_after, "write_fault_at_op": wf, "max_bytes": sizes,
                           "flavor": flavor, "reads": info.get("reads"), "outcome": repr(out)}
                    if not net.fault_fired:
                        continue
                    sigs.add(f"{kind}|{status}|after{n_after}|write-fault{wf}|mb{sizes}")
                    cnt["oracle_bytes"] += 1
                    # (what the endpoint echoes for the body chunks that did arrive may follow the leading bytes)
                    if info.get("status") == status and not (info.get("leading") or b"").startswith(after):
                        v("handover-bytes-lost:after-suppressed-write-error", f"{len(info.get('leading') or b'')} of {n_after} "
                          f"post-head bytes delivered after a write error while sending the request body", ctx)
        for name, seg in segs:
            if name == "cut":
                sz_list = [size_sets[(seg.arg[0] + j) % len(size_sets)] for j in range(2)]
            else:
                sz_list = size_sets
            for si, sizes in enumerate(sz_list):
                rbf = (si + len(sizes) + (seg.arg[0] if name == "cut" else 0)) % 3 == 0
                out, info, net = await _handover(flavor, kind, after, status, seg, sizes, read_body_first=rbf)
                cnt["handovers"] += 1
                if name == "cut":
                    cnt["cuts"] += 1
                    c = seg.arg[0]
                    pos = "head" if c < head_len else ("boundary" if c == head_len else "data")
                else:
                    pos = "-"
                sigs.add(f"{kind}|{status}|after{n_after}|{case.get('payload', 'arith')}|cl{case.get('head_cl')}|{name}|{pos}|mb{sizes}|rbf{int(rbf)}")
                ctx = {"kind": kind, "status": status, "after_len": n_after, "seg": seg.describe(), "max_bytes": sizes,
                       "flavor": flavor, "reads": info.get("reads"), "body_read_before_takeover": rbf}
                if out.kind != "ok":
                    mech = exc_name(out.exc) if out.kind == "exc" else out.kind
                    got = info.get("leading")
                    if got is not None and got != after:
                        v("handover-bytes-lost", f"only {len(got)} of {n_after} post-head bytes delivered, then {out!r}", ctx)
                    else:
                        v("handover-failed:" + mech, repr(out), ctx)
                    continue
                cnt["oracle_bytes"] += 1
                cnt["bytes_compared"] += n_after
                if info["leading"] != after:
                    v("handover-bytes-differ", f"got {info['leading'][:40]!r}... ({len(info['leading'])}) expected {n_after} bytes", ctx)
                if "overlong" in info:
                    v("read-exceeds-max-bytes", f"read({info['overlong'][0]}) returned {info['overlong'][1]} bytes", ctx)
                cnt["oracle_live"] += 1
                if info.get("live") != b"pong:ping":
                    v("live-data-wrong", f"live data {info.get('live')!r}", ctx)
                if info.get("written_after") != b"ping":
                    v("write-not-passed-through", f"endpoint saw {info.get('written_after')!r}", ctx)
                cnt["oracle_not_reused"] += 1
                if info.get("new_transport") != 1 or not info.get("first_closed"):
                    v("upgraded-connection-reused", f"second request opened {info.get('new_transport')} transports; "
                      f"first closed={info.get('first_closed')}", ctx)
                ac = info.get("after_close") or {}
                if ac.get("conn_idle", 0) or ac.get("conn_active", 0):
                    v("upgraded-connection-kept-in-pool", f"pool after close: {ac} {info.get('conn_states')}", ctx)
                if not sample:
                    sample.update(ctx)

    run_flavor(flavor, None, main, seed=case["seed"])
    return {"viol": viol, "counters": cnt, "sigs": sorted(sigs), "sample": sample or None}


PAYLOADS = ["arith", "crlf", "lf", "http-head", "nul", "blank"]


def payload(kind: str, n: int) -> bytes:
    """What the peer says after the head is opaque to HTTP: bytes that look like line ends, like another response head,
    like nothing at all."""
    base = bytes((i * 7 + 3) % 251 for i in range(n))
    pre = {"arith": b"", "crlf": b"\r\n\r\n", "lf": b"\n", "http-head": b"HTTP/1.1 200 OK\r\nContent-Length: 0\r\n\r\n",
           "nul": b"\x00\x00", "blank": b" \t\r\n "}[kind]
    return (pre + base)[:n]


def plan(tier, seed):
    r = random.Random(seed * 31 + 17)
    cases = []
    flavors = ["asyncio", "trio", "sync"]
    afters = [0, 1, 5, 64, 300] if tier == "quick" else [0, 1, 2, 5, 17, 64, 300, 70000]
    i = 0
    for kind, statuses in (("upgrade", [101]), ("connect", [200, 204, 299])):
        for st in statuses:
            for a in afters:
                fl = flavors if tier != "quick" else [flavors[i % 3]]
                for f in fl:
                    cases.append({"flavor": f, "kind": kind, "after": a, "status": st, "seed": r.randrange(1 << 30)})
                    if a and tier != "quick":
                        for pk in PAYLOADS[1:]:
                            cases.append(dict(cases[-1], payload=pk, seed=r.randrange(1 << 30)))
                    elif a:
                        cases.append(dict(cases[-1], payload=PAYLOADS[1 + (i + seed) % (len(PAYLOADS) - 1)], seed=r.randrange(1 << 30)))
                    if a and (tier != "quick" or a in (5, 64)):
                        cases.append(dict(cases[-1], payload="arith", head_cl=(3 if (i + seed) % 2 else 0) if tier == "quick" else 3,
                                          seed=r.randrange(1 << 30)))
                i += 1
    for f in flavors:
        cases.append({"flavor": f, "kind": "tunnel", "after": 0, "status": 200, "seed": r.randrange(1 << 30)})
    return cases
