"""C18 — sync and async APIs behave identically.

Deciding step: differential execution. Every single-caller program of the corpus (response x
segmentation, request sequences, single faults on 13 connection types, keep-alive
histories, upgrade hand-overs, proxy cases, mutated peer bytes) runs through the async
classes on asyncio and on trio and through the sync classes on the same simulated network
script; compared: (1) the boundary trace (every simnet event with its arguments, bytes and
virtual time), (2) the outcome, (3) pool/connection state reprs, (4) the set of executed
lines of each httpcore/_async/x.py versus httpcore/_sync/x.py (sys.monitoring) - equal
line-for-line because the translation is line-preserving. Auxiliary (not runtime
monitoring, reported separately): _sync regenerated with the repository's own
scripts/unasync.py must be byte-identical."""
from __future__ import annotations

import hashlib
import importlib.util
import os
import random
import sys
import tempfile

from .. import REPO, VERIF  # noqa: F401
import httpcore

from .. import simnet, gen, runners
from ..simnet import Segmentation
from ..world import run_flavor, exc_name

ID = "C18"
LEVEL = "translation_validation"
RULE = ("programs = single-caller scenarios drawn from the generators of C02, C05, C09, C11, C15 and C17 (seeded); each is "
        "executed on asyncio, trio and sync (plus 'nested' programs: a second request / use of the upgraded stream between reading "
        "a streamed body to its end and closing the response); a program is distinct by (kind, parameters); disagreements_checked counts the "
        "pairwise comparisons (trace, outcome, state, executed-line sets) performed")
ASSUMPTIONS = ["class-name prefixes 'Async' and the a-prefixed method names are the only textual differences allowed in reprs and "
               "messages", "executed-line equality holds because scripts/unasync.py is line-preserving; lines the corpus "
               "never executes are not covered by the runtime verdict (coverage is reported)"]
REQUIRED = ["programs", "comparisons", "trace_events_compared", "line_sets_compared", "async_lines_executed"]

TOOL = 4
simnet.DETACH_ON_START_TLS = False  # the sync stream model would otherwise (rightly) log a different close sequence


class LineSets:
    def __init__(self):
        self.lines: set = set()
        base = os.path.dirname(httpcore.__file__)
        self.prefix_a = os.path.join(base, "_async") + os.sep
        self.prefix_s = os.path.join(base, "_sync") + os.sep

    def cb(self, code, line):
        fn = code.co_filename
        if fn.startswith(self.prefix_a) or fn.startswith(self.prefix_s):
            self.lines.add((fn, line))
        return sys.monitoring.DISABLE

    def __enter__(self):
        m = sys.monitoring
        try:
            m.use_tool_id(TOOL, "hv-twins")
        except ValueError:
            m.free_tool_id(TOOL)
            m.use_tool_id(TOOL, "hv-twins")
        m.register_callback(TOOL, m.events.LINE, self.cb)
        m.set_events(TOOL, m.events.LINE)
        return self

    def __exit__(self, *a):
        m = sys.monitoring
        m.set_events(TOOL, 0)
        m.register_callback(TOOL, m.events.LINE, None)
        m.free_tool_id(TOOL)

    def take(self):
        out = self.lines
        self.lines = set()
        sys.monitoring.restart_events()
        return out


def norm_text(s: str) -> str:
    return (s.replace("Async", "").replace("aclose", "close").replace("handle_async_request", "handle_request")
            .replace("aiter_stream", "iter_stream").replace("aread", "read"))


def norm_outcome(out):
    if out is None:
        return None
    if out.kind == "exc":
        return ["exc", type(out.exc).__name__, norm_text(str(out.exc))[:300]]
    if out.kind == "ok":
        return ["ok", norm_value(out.value)]
    return [out.kind]


def norm_value(x, depth=0):
    if depth > 6:
        return "..."
    if isinstance(x, (bytes, bytearray)):
        return hashlib.sha1(bytes(x)).hexdigest()[:12] + ":%d" % len(x)
    if isinstance(x, (str, int, float, bool)) or x is None:
        return x
    if isinstance(x, dict):
        return {str(k): norm_value(x[k], depth + 1) for k in sorted(x, key=str)}
    if isinstance(x, (list, tuple)):
        return [norm_value(v, depth + 1) for v in x]
    if isinstance(x, runners.Outcome):
        return norm_outcome(x)
    return norm_text(type(x).__name__)


def norm_trace(nets):
    out = []
    for net in nets:
        t0 = None
        for e in net.events:
            if t0 is None:
                t0 = e["t"]
            rec = [e["ev"], round(e["t"] - t0, 6)]
            for k in ("tr", "op", "timeout", "n", "max_bytes", "layer", "target", "sni", "alpn_offered", "alpn", "fault", "d", "who", "token"):
                if k in e:
                    val = e[k]
                    if k == "who" and isinstance(val, str) and val.startswith("backend"):
                        pass
                    rec.append([k, norm_value(val)])
            if "data" in e:
                rec.append(["data", hashlib.sha1(e["data"]).hexdigest()[:12]])
            out.append(rec)
    return out


# -- programs ----------------------------------------------------------------------------------------------------
async def prog_response(flavor, p):
    from . import c02
    seg = Segmentation("all") if p["seg"] == "all" else Segmentation("fixed", p["seg"])
    out, origin, net = await c02._one(flavor, p["spec"], seg, truncate=p.get("truncate"))
    if out.kind == "ok":
        st, reason, ver, headers, chunks = out.value
        return {"out": ["ok", st, reason, ver, headers, b"".join(chunks)], "pool": None}
    return {"out": out}


async def prog_fault(flavor, p):
    from ..scenarios import run_injected, post_checks
    inject = ("fault", p["op"], p["fault"]) if p.get("fault") else None
    res = await run_injected(flavor, p["ctype"], p["shape"], "alone", inject, sc_kw={"timeouts": {"connect": 11.0, "read": 13.0, "write": 17.0, "pool": 19.0},
                                                                                     "retries": p.get("retries", 0),
                                                                                     "trace_raise": p.get("trace_raise"),
                                                                                     "trace_form": p.get("trace_form", "function")})
    pool = res["sc"].pool
    state = [norm_text(repr(pool)), [norm_text(c.info()) for c in pool.connections]]
    facts = await post_checks(res, flavor)
    return {"out": res["outcomes"].get("victim"), "state": state, "facts": {k: facts[k] for k in ("counts", "orphans", "open_after_close", "probe")}}


async def prog_history(flavor, p):
    from . import c09
    viol = []
    cnt = {k: 0 for k in c09.REQUIRED}
    sit = await c09.run_history(flavor, p["cfg"], p["steps"], cnt, lambda k, w, d: viol.append(k), set())
    return {"out": ["ok", sorted(sit), sorted(set(viol))]}


async def prog_handover(flavor, p):
    from . import c17
    after = bytes((i * 7 + 3) % 251 for i in range(p["after"]))
    seg = Segmentation("all") if p["cut"] is None else Segmentation("cuts", [p["cut"]])
    out, info, net = await c17._handover(flavor, p["kind"], after, p["status"], seg, p["sizes"])
    return {"out": out, "info": {k: info.get(k) for k in ("status", "leading", "reads", "live", "after_close", "conn_states", "new_transport")}}


async def prog_proxy(flavor, p):
    from . import c11
    cnt = {k: 0 for k in c11.REQUIRED}
    viol = []
    sig = await c11.run_one(flavor, p["case"], cnt, lambda k, w, d: viol.append(k))
    return {"out": ["ok", sorted(set(viol))]}


async def prog_mutated(flavor, p):
    from . import c15
    from .. import endpoints
    from ..endpoints import Resp
    from ..world import mk_pool, API, guarded
    net = simnet.Net()
    raw = p["raw"].encode("latin1")

    def responder(req, origin):
        x = Resp(200, b"OK", [], b"")
        x.raw = raw
        return x
    endpoints.Origin(net, "o.test", 80, responder=responder)
    pool = mk_pool(flavor, net)
    api = API(flavor, pool, net)
    out = await c15.fetch(flavor, api, "GET", "http://o.test/x")
    state = [norm_text(repr(pool)), [norm_text(c.info()) for c in pool.connections]]
    await guarded(flavor, api.close_pool)
    return {"out": out, "state": state}


async def prog_nested(flavor, p):
    """Things that happen between reading a streamed body to the end and closing the response."""
    from .. import endpoints
    from ..endpoints import Resp
    from ..world import mk_pool, API, guarded, pool_counts
    net = simnet.Net()
    kind = p["kind"]

    def responder(req, origin):
        if req.target == b"/ws":
            return Resp(101, b"Switching Protocols", [(b"Connection", b"upgrade"), (b"Upgrade", b"hv")], b"", framing="none",
                        after=b"after-head-data")
        return endpoints.echo_responder(req, origin)
    h2 = p["proto"] == "h2"
    o = endpoints.Origin(net, "o.test", 443 if h2 else 80, tls=h2, alpn=["h2"] if h2 else None, responder=responder)
    pool = mk_pool(flavor, net, max_connections=1, http2=h2)
    api = API(flavor, pool, net)
    scheme = "https" if h2 else "http"
    info = {}

    async def scen():
        if kind == "upgrade":
            resp, cm = await api.open("GET", f"{scheme}://o.test/ws", headers=[("Connection", "upgrade"), ("Upgrade", "hv")])
        else:
            resp, cm = await api.open("GET", f"{scheme}://o.test/a", headers=[("X-Token", "a")])
        chunks = await api.chunks(resp)          # the body is read to its end ...
        info["body"] = b"".join(chunks)
        info["state_after_read"] = [norm_text(repr(pool)), [norm_text(c.info()) for c in pool.connections]]
        if kind == "upgrade":
            ns = resp.extensions["network_stream"]
            info["upgraded_read"] = await guarded(flavor, lambda: api.ns_read(ns, 100, 5.0))
        else:
            # ... and before the response is closed another request is made on the full pool
            info["nested"] = await guarded(flavor, lambda: api.request("GET", f"{scheme}://o.test/b", headers=[("X-Token", "b")],
                                                                       extensions={"timeout": {"pool": 1.0}}))
        await api.close(cm)
        info["state_after_close"] = [norm_text(repr(pool)), [norm_text(c.info()) for c in pool.connections]]
        return resp.status
    out = await guarded(flavor, scen)
    await guarded(flavor, api.close_pool)
    return {"out": out, "info": info}


async def prog_upload(flavor, p):
    """A request body given as one bytes object (the library wraps it itself - in hand-written code with a sync and an async
    iterator): how it is cut into writes / chunks / DATA frames must not depend on the flavour."""
    from .. import endpoints
    from ..world import mk_pool, API, guarded
    net = simnet.Net()
    h2 = p["proto"] == "h2"
    o = endpoints.Origin(net, "o.test", 443 if h2 else 80, tls=h2, alpn=["h2"] if h2 else None)
    pool = mk_pool(flavor, net, http2=h2)
    api = API(flavor, pool, net)
    body = bytes((i * 31 + 7) % 251 for i in range(997)) * (p["size"] // 997 + 1)
    body = body[:p["size"]]
    hdrs = [("X-Token", "u")] + ([("Transfer-Encoding", "chunked")] if p.get("te") else [])
    out = await guarded(flavor, lambda: api.request("POST", ("https" if h2 else "http") + "://o.test/up", headers=hdrs, content=body))
    req = o.requests[0] if o.requests else None
    info = {"outcome": out, "received": len(req.body) if req else None,
            "received_ok": bool(req) and bytes(req.body) == body,
            "chunk_sizes": list(getattr(req, "chunk_sizes", []) or [])[:200] if req else None}
    await guarded(flavor, api.close_pool)
    return info


async def prog_goaway(flavor, p):
    """Three sequential requests on an HTTP/2 connection that the server shuts down with GOAWAY at a scripted point:
    outcome per call, what reached the origin per call (heads, body lengths), connections opened."""
    from . import c14
    from ..scenarios import Sc
    from ..world import guarded
    from .. import runners
    sc = Sc("h2", flavor, max_connections=3, resp_delay=0.0)
    script = {"data_chunk": 1000, "actions": [{"when": (p["when"], p["n"]), "do": "goaway", "last": p["last"]}]}
    for o in sc.origins:
        o.h2_script = dict(script)
    sc.net.op_budget = 12000
    outs = {}

    async def body():
        for i in range(3):
            try:
                outs[f"c{i}"] = runners.Outcome("ok", await c14.one_call(sc, p["shape"], f"c{i}"))
            except Exception as exc:  # noqa
                outs[f"c{i}"] = runners.Outcome("exc", exc=exc)
        return True
    run = await guarded(flavor, body)
    wire = {tok: [[bytes(r.method).decode(), len(r.body), bool(r.complete)] for r in reqs] for tok, reqs in sorted(c14.heads_by_token(sc).items())}
    n_tr = len(sc.net.transports)
    await guarded(flavor, sc.api.close_pool)
    return {"out": [run.kind, {k: norm_outcome(o) for k, o in sorted(outs.items())}], "wire": wire, "transports": n_tr}


async def prog_settings(flavor, p):
    """Sequential requests on one HTTP/2 connection whose server changes MAX_CONCURRENT_STREAMS between them (the two
    variants use different semaphore classes: the async one is bounded)."""
    from . import c14
    from ..scenarios import Sc
    from ..world import guarded
    from .. import runners
    sc = Sc("h2", flavor, max_connections=1, resp_delay=1.0)   # (the SETTINGS exchanges complete while the response is awaited)
    vals = p["values"]
    script = {"data_chunk": 1000, "settings": {3: vals[0]},
              # all further changes arrive while ONE request (the second) is in flight: nothing is acquired or released
              # in between, so slots withdrawn by a decrease are still outstanding when the next change is handled
              "actions": [{"when": ("head" if i % 2 == 0 else "end", 1), "do": "settings", "settings": {3: x}}
                          for i, x in enumerate(vals[1:])]}
    for o in sc.origins:
        o.h2_script = dict(script)
    sc.net.op_budget = 12000
    outs = {}

    async def body():
        for i in range(4):
            try:
                outs[f"c{i}"] = runners.Outcome("ok", await c14.one_call(sc, "get" if i != 1 else "post-iter", f"c{i}"))
            except Exception as exc:  # noqa
                outs[f"c{i}"] = runners.Outcome("exc", exc=exc)
        return True
    run = await guarded(flavor, body)
    n_tr = len(sc.net.transports)
    state = [norm_text(c.info()) for c in sc.pool.connections]
    await guarded(flavor, sc.api.close_pool)
    return {"out": [run.kind, {k: norm_outcome(o) for k, o in sorted(outs.items())}], "transports": n_tr, "state": state}


PROGS = {"settings": prog_settings, "goaway": prog_goaway, "upload": prog_upload, "nested": prog_nested, "response": prog_response, "fault": prog_fault, "history": prog_history, "handover": prog_handover,
         "proxy": prog_proxy, "mutated": prog_mutated}


def run_program(flavor, kind, p, ls: LineSets):
    simnet.NETS_CREATED = []
    box = {}
    ls.take()

    async def main():
        box["res"] = await PROGS[kind](flavor, p)

    try:
        run_flavor(flavor, None, main, seed=7)
        res = box["res"]
        summary = {k: (norm_outcome(v) if isinstance(v, runners.Outcome) else norm_value(v)) for k, v in res.items()}
    except Exception as exc:  # noqa - the harness failing differently per flavour is itself a disagreement
        summary = {"harness-exception": [type(exc).__name__, norm_text(str(exc))[:200]]}
    lines = ls.take()
    trace = norm_trace(simnet.NETS_CREATED)
    simnet.NETS_CREATED = None
    return summary, trace, lines


def split_lines(lines, ls: LineSets):
    a, s = {}, {}
    for fn, line in lines:
        base = os.path.basename(fn)
        (a if fn.startswith(ls.prefix_a) else s).setdefault(base, set()).add(line)
    return a, s


def first_diff(x, y):
    for i, (p, q) in enumerate(zip(x, y)):
        if p != q:
            return i, p, q
    if len(x) != len(y):
        i = min(len(x), len(y))
        return i, (x[i] if i < len(x) else None), (y[i] if i < len(y) else None)
    return None


def run_case(case):
    viol = []
    cnt = {k: 0 for k in REQUIRED}
    cnt["sync_lines_executed"] = 0
    sigs = set()
    sample = {}
    cover_a: dict = {}
    cover_s: dict = {}

    def v(key, what, detail):
        if not any(x["key"] == key for x in viol):
            viol.append({"key": key, "what": what, "detail": detail})

    if case.get("aux"):
        return run_aux(case)
    if case.get("realsock"):
        return run_realsock(case)
    with LineSets() as ls:
        for kind, p in case["programs"]:
            results = {}
            for flavor in ("asyncio", "trio", "sync"):
                results[flavor] = run_program(flavor, kind, p, ls)
            cnt["programs"] += 1
            sigs.add(kind + ":" + hashlib.sha1(repr(p).encode()).hexdigest()[:12])
            ctx = {"kind": kind, "params": p}
            sa, ta, la = results["asyncio"]
            for other in ("trio", "sync"):
                so, to, lo = results[other]
                cnt["comparisons"] += 2
                if so != sa:
                    diffk = [k for k in set(sa) | set(so) if sa.get(k) != so.get(k)]
                    v(f"outcome-differs:{kind}:asyncio-vs-{other}", f"{diffk}: asyncio {str({k: sa.get(k) for k in diffk})[:300]} vs {other} "
                      f"{str({k: so.get(k) for k in diffk})[:300]}", ctx)
                cnt["trace_events_compared"] += min(len(ta), len(to))
                d = first_diff(ta, to)
                if d is not None:
                    v(f"trace-differs:{kind}:asyncio-vs-{other}", f"event {d[0]}: asyncio {str(d[1])[:200]} vs {other} {str(d[2])[:200]}", ctx)
            # executed-line twins: async lines (asyncio run) vs sync lines (sync run); trio must equal asyncio
            a_as, _ = split_lines(la, ls)
            a_tr, _ = split_lines(results["trio"][2], ls)
            _, s_sy = split_lines(results["sync"][2], ls)
            for base in sorted(set(a_as) | set(s_sy) | set(a_tr)):
                cnt["line_sets_compared"] += 2
                cnt["comparisons"] += 2
                x, y, z = a_as.get(base, set()), s_sy.get(base, set()), a_tr.get(base, set())
                cover_a.setdefault(base, set()).update(x)
                cover_s.setdefault(base, set()).update(y)
                if x != y:
                    only_a, only_s = sorted(x - y)[:8], sorted(y - x)[:8]
                    v(f"executed-lines-differ:{base}", f"{kind}: lines only executed in _async/{base}: {only_a}; only in _sync/{base}: {only_s}", ctx)
                if x != z:
                    v(f"executed-lines-differ-asyncio-vs-trio:{base}", f"{kind}: {sorted(x ^ z)[:10]}", ctx)
            if not sample:
                sample.update({"kind": kind, "params": p, "outcome": sa, "trace_events": len(ta),
                               "async_lines": {b: len(s_) for b, s_ in a_as.items()}})
    cnt["async_lines_executed"] = sum(len(s_) for s_ in cover_a.values())
    cnt["sync_lines_executed"] = sum(len(s_) for s_ in cover_s.values())
    return {"viol": viol, "counters": cnt, "sigs": sorted(sigs), "sample": sample or None,
            "cover": {b: sorted(s_) for b, s_ in cover_a.items()}}


def run_realsock(case):
    """The hand-written pair of real back-ends (sync.py vs anyio.py / trio.py), which unasync does not generate: the
    same loopback server behaviour must end in the same outcome class for all three."""
    from .. import realsock
    viol = []
    cnt = {k: 0 for k in REQUIRED}
    cnt["real_backend_comparisons"] = 0
    sigs = set()
    for b in case["behaviours"]:
        want = realsock.EXPECT.get(b)
        if not (want is None or (isinstance(want, tuple) and len(want) == 1)):
            continue  # resets racing with reads/writes legitimately end in one of several classes, run by run
        def once():
            outs_ = {}
            for be in ("sync", "anyio", "trio"):
                res = realsock.run_one(be, b)
                if res.get("outcome") == "n/a":
                    continue
                exc = res.get("exc")
                outs_[be] = type(exc).__name__ if exc is not None else f"{res.get('outcome')}:{res.get('status')}"
            return outs_
        outs = once()
        if len(set(outs.values())) > 1:
            # real sockets on a loaded machine: a difference counts only if it shows again (same back-end, same outcome)
            cnt["real_backend_disagreements_retried"] = cnt.get("real_backend_disagreements_retried", 0) + 1
            again = once()
            outs = {be: o for be, o in outs.items() if again.get(be) == o}
            for be, o in again.items():
                outs.setdefault(be, o)
        if len(outs) < 2:
            continue
        cnt["real_backend_comparisons"] += 1
        cnt["comparisons"] += len(outs) - 1
        sigs.add(f"realsock|{b}|{outs.get('anyio')}")
        ref = outs.get("anyio")
        for be, o in outs.items():
            if o != ref and not any(x["key"] == f"real-backend-outcome-differs:{b}:{be}" for x in viol):
                viol.append({"key": f"real-backend-outcome-differs:{b}:{be}",
                             "what": f"loopback server behaviour {b!r}: {outs}", "detail": {"behaviour": b, "outcomes": outs}})
    return {"viol": viol, "counters": cnt, "sigs": sorted(sigs), "sample": None}


ASYNC_ONLY_NAMES = {"__anext__", "__aiter__", "__aenter__", "__aexit__", "aclose", "aread", "aiter_stream", "await", "async",
                    "AsyncIterator", "AsyncIterable", "handle_async_request", "anext", "aiter"}


def run_aux(case):
    """Auxiliary, NOT runtime monitoring: regenerate _sync from _async with scripts/unasync.py and require byte equality."""
    viol = []
    cnt = {k: 0 for k in REQUIRED}
    cnt["aux_files_compared"] = 0
    spec = importlib.util.spec_from_file_location("hv_unasync", os.path.join(REPO, "scripts", "unasync.py"))
    mod = importlib.util.module_from_spec(spec)
    spec.loader.exec_module(mod)
    src = os.path.join(REPO, "httpcore", "_async")
    dst = os.path.join(REPO, "httpcore", "_sync")
    with tempfile.TemporaryDirectory(dir=os.path.join(VERIF, "work") if os.path.isdir(os.path.join(VERIF, "work")) else None) as tmp:
        names_a = sorted(f for f in os.listdir(src) if f.endswith(".py"))
        names_s = sorted(f for f in os.listdir(dst) if f.endswith(".py"))
        if names_a != names_s:
            viol.append({"key": "aux:file-set-differs", "what": f"{names_a} vs {names_s}", "detail": {}})
        for f in names_a:
            out = os.path.join(tmp, f)
            mod.unasync_file(os.path.join(src, f), out)
            cnt["aux_files_compared"] += 1
            want = open(out, "rb").read()
            have = open(os.path.join(dst, f), "rb").read() if os.path.exists(os.path.join(dst, f)) else b""
            if want != have:
                wl, hl = want.splitlines(), have.splitlines()
                d = first_diff(wl, hl)
                viol.append({"key": f"aux:sync-source-not-the-translation:{f}",
                             "what": f"httpcore/_sync/{f} differs from the unasync translation of httpcore/_async/{f} at line "
                                     f"{d[0] + 1 if d else '?'}: expected {d[1]!r}, found {d[2]!r}" if d else "length differs",
                             "detail": {"file": f}})
            # names that exist only in the asynchronous world must not survive the translation - neither as identifiers
            # nor inside string literals (hasattr(x, "__anext__") is always False for a synchronous iterator)
            import io
            import tokenize
            for tok in tokenize.generate_tokens(io.StringIO(have.decode("utf8")).readline):
                cnt["aux_tokens_checked"] = cnt.get("aux_tokens_checked", 0) + 1
                text = tok.string.strip("\"'") if tok.type == tokenize.STRING else tok.string
                if tok.type in (tokenize.NAME, tokenize.STRING) and text in ASYNC_ONLY_NAMES:
                    viol.append({"key": f"aux:async-only-name-in-sync-twin:{text}",
                                 "what": f"httpcore/_sync/{f} line {tok.start[0]}: {tok.line.strip()!r}", "detail": {"file": f}})
    return {"viol": viol, "counters": cnt, "sigs": [], "sample": None}


def finish(counters, results):
    cover: dict = {}
    for r in results:
        for b, ls_ in (r.get("cover") or {}).items():
            cover.setdefault(b, set()).update(ls_)
    total = {}
    base = os.path.join(REPO, "httpcore", "_async")
    for b in cover:
        try:
            import ast
            tree = ast.parse(open(os.path.join(base, b)).read())
            stm = {n.lineno for n in ast.walk(tree) if isinstance(n, ast.stmt)}
            total[b] = [len(cover[b] & stm), len(stm)]
        except OSError:
            pass
    return {"programs": int(counters.get("programs", 0)), "disagreements_checked": int(counters.get("comparisons", 0)),
            "async_statement_lines_executed_of_total": total,
            "auxiliary_translator_diff": {"files_compared": int(counters.get("aux_files_compared", 0)),
                                          "note": "static byte comparison with scripts/unasync.py output; not runtime monitoring"}}


def plan(tier, seed):
    from ..scenarios import TYPES
    from . import c09, c11, c15
    r = random.Random(seed * 7727 + 18)
    q = tier == "quick"
    progs = []
    for i in range(60 if q else 600):
        proto = "h2" if i % 3 == 2 else "h1"
        spec = gen.gen_response_spec(r, proto, small=True)
        progs.append(["response", {"spec": spec, "seg": r.choice(["all", 1, 7]), "truncate": r.choice([None, None, 5, 40])}])
    for ctype in TYPES:
        for shape in ("get", "post3", "stream-partial"):
            progs.append(["fault", {"ctype": ctype, "shape": shape}])
            for _ in range(3 if q else 12):
                progs.append(["fault", {"ctype": ctype, "shape": shape, "op": r.randrange(0, 14),
                                        "fault": r.choice(["ConnectError", "ConnectTimeout", "ReadError", "ReadTimeout", "EOF",
                                                           "WriteError", "WriteTimeout", "PartialWrite"])}])
    for ctype in TYPES:
        # establishment faults with retries configured (the retry path, with its back-off sleep and trace events)
        for op, fault, retries in ((0, "ConnectError", 1), (0, "ConnectTimeout", 2), (1, "ConnectError", 1), (1, "ReadError", 2), (2, "EOF", 1)):
            progs.append(["fault", {"ctype": ctype, "shape": "get", "op": op, "fault": fault, "retries": retries}])
    for ctype in TYPES:
        # the caller's trace callback itself fails: at the n-th '.started' / '.complete' event of a plain request, or at the
        # first '.failed' event after an injected fault - what reaches the caller, and what is left behind, must agree
        for _ in range(2 if q else 10):
            progs.append(["fault", {"ctype": ctype, "shape": r.choice(["get", "post3"]),
                                    "trace_raise": [r.choice([".started", ".complete"]), r.randrange(1, 9)]}])
        for _ in range(2 if q else 10):
            progs.append(["fault", {"ctype": ctype, "shape": r.choice(["get", "post3", "stream-partial"]), "op": r.randrange(0, 14),
                                    "fault": r.choice(["ConnectError", "ReadError", "ReadTimeout", "EOF", "WriteError", "PartialWrite"]),
                                    "trace_raise": [".failed", 1]}])
    for ctype in TYPES:
        # the trace callback in other shapes than a plain function: a callable object, a functools.partial
        for form in ("object", "partial"):
            progs.append(["fault", {"ctype": ctype, "shape": r.choice(["get", "post3"]), "trace_form": form}])
    for i in range(60 if q else 500):
        cfg, steps = c09.gen_history(r)
        progs.append(["history", {"cfg": cfg, "steps": steps}])
    for kind, st in (("upgrade", 101), ("connect", 200), ("connect", 299)):
        for after in (0, 5, 64):
            for cut in (None, 10, 40, 60):
                progs.append(["handover", {"kind": kind, "status": st, "after": after, "cut": cut, "sizes": r.choice([[65536], [1], [3, 7]])}])
    for vals in ([100, 10, 100], [60, 10, 60], [100, 1, 50], [8, 2, 8], [1, 100, 1, 100], [200, 50, 200]):
        progs.append(["settings", {"values": vals}])
    for shape in ("get", "post-bytes", "post-iter", "post-once"):
        for when in ("head", "end"):
            for n in (0, 1, 2):
                for last in ((0, "prev", "this") if q else (0, "prev", "this", 2 ** 31 - 1)):
                    progs.append(["goaway", {"shape": shape, "when": when, "n": n, "last": last}])
    for i in range(60 if q else 500):
        progs.append(["proxy", {"case": c11.gen_case(r)}])
    for i in range(40 if q else 400):
        spec = gen.gen_response_spec(r, "h1", small=True)
        wire = gen.build_resp(spec).serialise()
        raw, kind = c15.mutate_bytes(r, wire)
        progs.append(["mutated", {"raw": raw[:4000].decode("latin1"), "mutation": kind}])
    for proto, te in (("h1", False), ("h1", True), ("h2", False)):
        for size in (0, 1, 65535, 65536, 65537, 100_000, 200_000):
            progs.append(["upload", {"proto": proto, "te": te, "size": size}])
    for proto in ("h1", "h2"):
        for kind in ("request", "upgrade"):
            if not (proto == "h2" and kind == "upgrade"):
                progs.append(["nested", {"proto": proto, "kind": kind}])
    r.shuffle(progs)
    n_cases = 30
    cases = [{"programs": progs[i::n_cases], "seed": seed + i} for i in range(n_cases)]
    cases.append({"aux": True, "seed": 0})
    from .. import realsock
    cases.append({"realsock": True, "behaviours": list(realsock.BEHAVIOURS), "seed": 0})
    return cases
