"""C15 — only documented exception types reach the caller.

Structure-aware mutation and from-scratch random bytes at every peer stage (HTTP/1.1
response, HTTP/2 frames, SOCKS5 replies, CONNECT replies), injected back-end exceptions at
every operation, invalid requests from the caller, and hostile concurrent workloads; the
oracle classifies whatever escapes pool.request() / body iteration / close."""
from __future__ import annotations

import random

from .. import REPO  # noqa: F401
import httpcore

from .. import simnet, endpoints, gen
from ..endpoints import Resp
from ..endpoints_h2 import INJECT_KINDS
from ..simnet import CALL
from ..world import mk_pool, API, run_flavor, guarded, exc_name, documented

ID = "C15"
LEVEL = "exploration"
RULE = ("h1: valid generated responses mutated (status line, version, header lines, chunk sizes, lengths, CR/LF/NUL, byte "
        "flips/inserts/deletes, truncation) and random bytes; h2: frame k of the server's stream mutated (type, flags, length, "
        "stream id, payload, bit flips, drop, duplicate, truncate) or 32 kinds of hand-built illegal frames injected before/"
        "after frame k, for GET and POST and multi-frame bodies; SOCKS5: every reply stage x random/mutated/truncated replies; "
        "CONNECT: mutated replies; back-end: every op x fault kind on 13 connection types; caller: body/Content-Length "
        "mismatches; hostile concurrent workloads; real-socket tier: SyncBackend / AnyIOBackend / TrioBackend against 13 loopback "
        "server behaviours (refuse, close, RST, stall, partial response, TLS garbage / untrusted / stalled ...); distinct+non-trivial = (stage, mutation kind, outcome class)")
ASSUMPTIONS = ["the peer always ends its input (EOF 0.5 virtual seconds after its last byte), so a hang is a verdict",
               "documented set taken from docs/exceptions.md / httpcore.__all__"]
REQUIRED = ["inputs", "oracle_documented", "oracle_class", "oracle_no_hang", "outcome_ok", "outcome_remote_protocol_error",
            "backend_faults", "workload_exceptions_seen"]


def mutate_bytes(r: random.Random, wire: bytes) -> tuple[bytes, str]:
    kind = r.choice(["flip", "insert", "delete", "truncate", "status", "version", "header", "chunk", "length", "ctl", "dup-head",
                     "lf-only", "huge-header", "empty", "garbage-prefix", "obs-fold", "space-before-colon"])
    b = bytearray(wire)
    if kind == "flip" and b:
        for _ in range(r.randint(1, 3)):
            i = r.randrange(min(len(b), 400))
            b[i] ^= 1 << r.randrange(8)
    elif kind == "insert":
        i = r.randrange(min(len(b), 300) + 1)
        b[i:i] = bytes(r.randrange(256) for _ in range(r.randint(1, 8)))
    elif kind == "delete" and b:
        i = r.randrange(min(len(b), 300))
        del b[i:i + r.randint(1, 8)]
    elif kind == "truncate":
        b = b[:r.randrange(len(b) + 1)]
    elif kind == "status":
        st = r.choice([b"20", b"2000", b"abc", b"-200", b"000", b"99", b"1000", b" 200", b"200  ", b"2 0", b"", b"600", b"\xff00"])
        i = b.find(b" ")
        j = b.find(b" ", i + 1)
        if i > 0 and j > i:
            b[i + 1:j] = st
    elif kind == "version":
        ver = r.choice([b"HTTP/2.0", b"HTTP/1.2", b"HTTP/0.9", b"HTP/1.1", b"http/1.1", b"HTTP/1.", b"HTTP/11", b"ICY", b""])
        i = b.find(b" ")
        if i > 0:
            b[:i] = ver
    elif kind == "header":
        line = r.choice([b"Content-Length: " + b"9" * r.choice([4299, 4301, 5000, 20000]), b"Content-Length: " + b"0" * 6000 + b"5",
                         b"NoColonHere", b": novalue-name", b"Bad Name: x", b"X-A: a\x00b", b"X-A: a\rb", b"Content-Length: -5",
                         b"Content-Length: 1, 2", b"Content-Length: abc", b"Transfer-Encoding: gzip", b"Transfer-Encoding: chunked, chunked",
                         b"Content-Length: 3\r\nContent-Length: 4", b"X-\xff: y", b"Connection: \x7f", b"X" * 300 + b": v"])
        i = b.find(b"\r\n")
        if i > 0:
            b[i + 2:i + 2] = line + b"\r\n"
    elif kind == "chunk":
        i = b.find(b"\r\n\r\n")
        if i > 0:
            junk = r.choice([b"zz\r\n", b"-1\r\n", b"FFFFFFFFFFFFFFFFF\r\n", b"5;ext\r\nab", b"5\r\nabcdeXX", b"0x5\r\n", b" 5\r\n", b"5 \r\nabcde\r\n"])
            b[i + 4:i + 4] = junk
            if b"Transfer-Encoding" not in b[:i]:
                b[i:i] = b"\r\nTransfer-Encoding: chunked"
    elif kind == "length":
        i = b.find(b"Content-Length: ")
        if i > 0:
            j = b.find(b"\r\n", i)
            b[i + 16:j] = r.choice([b"999999", b"0", b"1", b"18446744073709551616", b"+5", b"5.0", b"0x10"])
    elif kind == "ctl":
        i = r.randrange(min(len(b), 200) + 1)
        b[i:i] = r.choice([b"\x00", b"\r", b"\n", b"\x0b", b"\x7f", b"\xff"])
    elif kind == "dup-head":
        i = b.find(b"\r\n\r\n")
        if i > 0:
            b = b[:i + 4] + b[:i + 4] + b[i + 4:]
    elif kind == "lf-only":
        b = bytearray(bytes(b).replace(b"\r\n", b"\n"))
    elif kind == "huge-header":
        i = b.find(b"\r\n")
        if i > 0:
            b[i + 2:i + 2] = b"X-Huge: " + b"a" * r.choice([70000, 120000, 300000]) + b"\r\n"
    elif kind == "empty":
        b = bytearray()
    elif kind == "garbage-prefix":
        b[0:0] = bytes(r.randrange(256) for _ in range(r.randint(1, 40)))
    elif kind == "obs-fold":
        i = b.find(b"\r\n")
        if i > 0:
            b[i + 2:i + 2] = b"X-Fold: a\r\n  continued\r\n"
    elif kind == "space-before-colon":
        i = b.find(b"\r\n")
        if i > 0:
            b[i + 2:i + 2] = b"X-Sp : v\r\n"
    return bytes(b), kind


class Judge:
    def __init__(self, cnt, viol):
        self.cnt = cnt
        self.viol = viol
        self.sigs = set()

    def v(self, key, what, detail):
        if not any(x["key"] == key for x in self.viol) and len(self.viol) < 80:
            self.viol.append({"key": key, "what": what, "detail": detail})

    def peer(self, stage, kind, out, ctx, allowed=(httpcore.RemoteProtocolError, httpcore.NetworkError)):
        # (the peer also goes away after its last byte, so a read/write NetworkError is a true cause as well)
        """Outcome of a call whose peer sent (possibly) malformed data and then closed."""
        cnt = self.cnt
        cnt["inputs"] += 1
        cnt["oracle_no_hang"] += 1
        cnt["oracle_documented"] += 1
        if out.kind == "hang":
            self.v(f"hang:{stage}:{kind}", f"call hangs although the peer's input has ended ({stage}/{kind})", ctx)
            self.sigs.add(f"{stage}|{kind}|hang")
            return
        if out.kind == "ok":
            cnt["outcome_ok"] += 1
            self.sigs.add(f"{stage}|{kind}|ok")
            return
        exc = out.exc
        name = exc_name(exc)
        self.sigs.add(f"{stage}|{kind}|{type(exc).__name__}")
        if not documented(exc):
            self.v(f"undocumented:{stage}:{name}", f"{stage}/{kind}: {exc!r}", ctx)
            return
        cnt["oracle_class"] += 1
        if isinstance(exc, httpcore.RemoteProtocolError):
            cnt["outcome_remote_protocol_error"] += 1
        if not isinstance(exc, allowed):
            self.v(f"wrong-class:{stage}:{type(exc).__name__}", f"{stage}/{kind}: malformed peer data reported as {exc!r}", ctx)


async def fetch(flavor, api, method, url, content=None, headers=None):
    async def scen():
        resp, cm = await api.open(method, url, headers=headers or [("X-Token", "f")], content=content)
        try:
            chunks = await api.chunks(resp)
        except BaseException as exc:
            await api.close(cm, exc)
            raise
        await api.close(cm)
        return resp.status, sum(map(len, chunks))
    return await guarded(flavor, scen)


async def part_h1(flavor, case, J):
    r = random.Random(case["seed"])
    for i in range(case["n"]):
        spec = gen.gen_response_spec(r, "h1", small=True)
        resp0 = gen.build_resp(spec)
        if spec["method"] == "HEAD" or spec["status"] in (204, 304):
            resp0.no_body = True
        wire = resp0.serialise()
        if r.random() < 0.15:
            raw, kind = bytes(r.randrange(256) for _ in range(r.randint(0, 200))), "random"
        else:
            raw, kind = mutate_bytes(r, wire)
        net = simnet.Net()
        net.log_events = False
        if r.random() < 0.3:
            net.segmentation = simnet.Segmentation("random", rng=random.Random(i))

        def responder(req, origin, raw=raw):
            x = Resp(200, b"OK", [], b"")
            x.raw = raw
            return x
        endpoints.Origin(net, "o.test", 80, responder=responder)
        pool = mk_pool(flavor, net)
        api = API(flavor, pool, net)
        out = await fetch(flavor, api, spec["method"], "http://o.test/x")
        J.peer("h1", kind, out, {"flavor": flavor, "mutation": kind, "wire": raw[:300].decode("latin1")})
        await guarded(flavor, api.close_pool)


async def part_h2(flavor, case, J):
    r = random.Random(case["seed"])
    for i in range(case["n"]):
        shape = r.choice(["get", "post", "big"])
        x = r.random()
        if x < 0.45:
            mut = {"frame": r.randrange(8), "kind": r.choice(["type", "flags", "stream", "length", "payload", "bitflip", "truncate",
                                                              "drop", "dup", "garbage"]), "seed": r.randrange(1 << 30)}
        else:
            mut = {"frame": r.randrange(8), "kind": r.choice(["inject", "inject-after"]), "what": r.choice(INJECT_KINDS),
                   "seed": r.randrange(1 << 30)}
        force_uploader = False
        if i == 1 and flavor != "sync":
            # one fixed case per shard: the peer overflows the window of the stream on which a sibling is uploading (h2 resets
            # that stream on its own; what the uploader is told must still name the peer) - found by chance at first
            mut = {"frame": 4, "kind": "inject", "what": "wu-stream-overflow", "seed": 58063181}
            force_uploader = True
        net = simnet.Net()
        net.log_events = False
        if r.random() < 0.3:
            net.segmentation = simnet.Segmentation("random", rng=random.Random(i))
        size = 60000 if shape == "big" else 30

        def responder(req, origin, size=size):
            return Resp(200, b"OK", [(b"x-echo", b"f")], b"z" * size)
        o = endpoints.Origin(net, "o.test", 443, tls=True, alpn=["h2"], responder=responder,
                             h2_script={"mutate": mut, "data_chunk": 10000, "idle_close": True})
        pool = mk_pool(flavor, net, http2=True)
        api = API(flavor, pool, net)
        content = api.body([b"a" * 1000, b"b" * 1000]) if shape == "post" else None
        kind = mut["kind"] + (":" + mut["what"] if "what" in mut else "")
        if flavor != "sync" and i % 2:
            # sibling streams: three concurrent requests multiplexed on the connection that receives the bad frame -
            # every one of them must see a documented exception of the right class, not only the one that was reading
            from .. import runners
            mut["frame"] = 4 + mut["frame"]
            uploader = i % 4 == 3 or force_uploader
            if uploader:
                # one of the siblings is in the middle of a slow upload (its send phase) when the bad frame is read by another
                net.latency = lambda kind_, idx: 0.01 if kind_ == "write" else 0.0
            jobs = {f"s{k}": (lambda k=k: fetch(flavor, api, "GET", f"https://o.test/x{k}", headers=[("X-Token", f"s{k}")]))
                    for k in range(3)}
            if uploader:
                jobs["s2"] = lambda: fetch(flavor, api, "POST", "https://o.test/up", headers=[("X-Token", "s2")],
                                           content=api.body([b"u" * 1000] * 12))
            outs = await runners.gather(jobs)
            for name, o in sorted(outs.items()):
                res = o.value if o.kind == "ok" else o
                J.peer("h2-siblings", kind, res, {"flavor": flavor, "mutation": mut,
                                                  "shape": "2 GETs + 1 slow upload" if uploader else "3 concurrent GETs", "caller": name})
        else:
            out = await fetch(flavor, api, "POST" if shape == "post" else "GET", "https://o.test/x", content=content)
            J.peer("h2", kind, out, {"flavor": flavor, "mutation": mut, "shape": shape})
        await guarded(flavor, api.close_pool)


async def part_socks(flavor, case, J):
    r = random.Random(case["seed"])
    good = [bytes([5, 0]), bytes([5, 0, 0, 1, 0, 0, 0, 0, 0, 0])]
    good_auth = [bytes([5, 2]), bytes([1, 0]), bytes([5, 0, 0, 1, 0, 0, 0, 0, 0, 0])]
    for i in range(case["n"]):
        auth = r.random() < 0.5
        seq = list(good_auth if auth else good)
        stage = r.randrange(len(seq))
        kind = r.choice(["random", "truncate", "flip", "empty", "long", "version", "atyp", "domain-reply", "ipv6-reply", "split"])
        b = bytearray(seq[stage])
        if kind == "random":
            b = bytearray(r.randrange(256) for _ in range(r.randint(1, 30)))
        elif kind == "truncate":
            b = b[:r.randrange(len(b))]
        elif kind == "flip":
            j = r.randrange(len(b))
            b[j] ^= 1 << r.randrange(8)
        elif kind == "empty":
            b = bytearray()
        elif kind == "long":
            b = b + bytes(r.randrange(256) for _ in range(r.randint(1, 300)))
        elif kind == "version":
            b[0] = r.choice([0, 4, 6, 255])
        elif kind == "atyp" and len(b) > 3:
            b[3] = r.choice([0, 2, 5, 255])
        elif kind == "domain-reply":
            b = bytearray([5, 0, 0, 3, 5]) + b"abcde" + b"\x00\x50"
        elif kind == "ipv6-reply":
            b = bytearray([5, 0, 0, 4]) + bytes(16) + b"\x00\x50"
        seq[stage] = bytes(b)
        seq = seq[:stage + 1]
        net = simnet.Net()
        net.log_events = False
        o = endpoints.Origin(net, "o.test", 80, register=False)
        endpoints.Socks5Proxy(net, "socks.test", 1080, origins=[o], auth=(b"u", b"p") if auth else None,
                              script={"raw_replies": seq, "then_close": True})
        pool = mk_pool(flavor, net, proxy={"url": "socks5://socks.test:1080", "auth": (b"u", b"p") if auth else None})
        api = API(flavor, pool, net)
        out = await fetch(flavor, api, "GET", "http://o.test/x")
        J.peer("socks", f"stage{stage}:{kind}", out, {"flavor": flavor, "stage": stage, "kind": kind, "reply": bytes(b)[:60].decode("latin1"),
                                                      "auth": auth}, allowed=(httpcore.ProxyError, httpcore.RemoteProtocolError, httpcore.NetworkError))
        await guarded(flavor, api.close_pool)


async def part_connect(flavor, case, J):
    r = random.Random(case["seed"])
    for i in range(case["n"]):
        good = Resp(r.choice([200, 200, 403, 407, 502]), b"X", [(b"Via", b"px")], b"", framing="none").serialise()
        if r.random() < 0.15:
            raw, kind = bytes(r.randrange(256) for _ in range(r.randint(0, 100))), "random"
        else:
            raw, kind = mutate_bytes(r, good)
        net = simnet.Net()
        net.log_events = False
        o = endpoints.Origin(net, "o.test", 443, tls=True, alpn=["http/1.1"], register=False)

        def reply(target, req, raw=raw):
            x = Resp(200, b"OK", [], b"", framing="none")
            x.raw = raw
            return x
        endpoints.HTTPProxy(net, "proxy.test", 3128, origins=[o], connect_reply=reply)
        pool = mk_pool(flavor, net, proxy={"url": "http://proxy.test:3128"})
        api = API(flavor, pool, net)
        out = await fetch(flavor, api, "GET", "https://o.test/x")
        J.peer("connect", kind, out, {"flavor": flavor, "mutation": kind, "reply": raw[:200].decode("latin1")},
               allowed=(httpcore.ProxyError, httpcore.RemoteProtocolError, httpcore.ConnectError))
        await guarded(flavor, api.close_pool)


async def part_caller(flavor, case, J):
    """Invalid requests from the caller: LocalProtocolError."""
    cnt = J.cnt
    for proto in ("h1", "h2"):
        for declared, actual in ((5, 10), (10, 5), (0, 3), (3, 0), ("1" * 5000, 4)):
            for kind in ("bytes", "iter"):
                net = simnet.Net()
                net.log_events = False
                h2 = proto == "h2"
                endpoints.Origin(net, "o.test", 443 if h2 else 80, tls=h2, alpn=["h2"] if h2 else None)
                pool = mk_pool(flavor, net, http2=h2)
                api = API(flavor, pool, net)
                body = b"x" * actual
                content = body if kind == "bytes" else api.body([body[:actual // 2], body[actual // 2:]])
                out = await guarded(flavor, lambda: api.request("POST", ("https" if h2 else "http") + "://o.test/x",
                                                                headers=[("Content-Length", str(declared))], content=content))
                cnt["inputs"] += 1
                cnt["oracle_documented"] += 1
                ctx = {"flavor": flavor, "proto": proto, "declared": str(declared)[:12], "actual": actual, "body": kind}
                J.sigs.add(f"caller|{proto}|{str(declared)[:12]}<>{actual}|{kind}|{out.kind if out.kind != 'exc' else type(out.exc).__name__}")
                if out.kind == "hang":
                    # body shorter than declared: the server legitimately waits for the rest; only h1 can know locally
                    if proto == "h1":
                        J.v(f"hang:caller:{proto}", "request with a body shorter than its Content-Length hangs", ctx)
                elif out.kind == "exc":
                    if not documented(out.exc):
                        J.v(f"undocumented:caller:{proto}:{exc_name(out.exc)}", f"body {actual} bytes with Content-Length {str(declared)[:12]}: {out.exc!r}", ctx)
                    else:
                        cnt["oracle_class"] += 1
                await guarded(flavor, api.close_pool)


async def part_scheme(flavor, case, J):
    """A URL whose scheme the pool cannot serve: UnsupportedProtocol (the one documented class outside the four families),
    raised before anything touches the network - through the plain pool, a forwarding / tunnelling proxy and SOCKS."""
    cnt = J.cnt
    for proxy in (None, {"url": "http://proxy.test:3128"}, {"url": "socks5://socks.test:1080"}):
        for url in ("ftp://o.test/x", "//o.test/x", "o.test/x", "/just/a/path", "gopher://o.test:70/", "HTTPX://o.test/"):
            net = simnet.Net()
            net.log_events = False
            endpoints.Origin(net, "o.test", 80)
            pool = mk_pool(flavor, net, proxy=proxy)
            api = API(flavor, pool, net)
            out = await guarded(flavor, lambda: api.request("GET", url))
            cnt["inputs"] += 1
            cnt["oracle_documented"] += 1
            cnt["unsupported_scheme_inputs"] = cnt.get("unsupported_scheme_inputs", 0) + 1
            ctx = {"flavor": flavor, "url": url, "proxy": proxy and proxy["url"]}
            J.sigs.add(f"scheme|{url}|{proxy and proxy['url']}|{out.kind if out.kind != 'exc' else type(out.exc).__name__}")
            if out.kind != "exc":
                J.v("unsupported-scheme-accepted", f"{url!r}: {out!r}", ctx)
            elif not isinstance(out.exc, httpcore.UnsupportedProtocol):
                J.v(f"unsupported-scheme:wrong-class:{exc_name(out.exc)}", f"{url!r}: {out.exc!r}", ctx)
            else:
                cnt["oracle_class"] += 1
            if net.transports:
                J.v("unsupported-scheme-touched-the-network", f"{url!r}: {len(net.transports)} connection(s) opened", ctx)
            if "Requests: 0 active, 0 queued" not in repr(pool):
                J.v("unsupported-scheme-left-request-counted", repr(pool), ctx)
            await guarded(flavor, api.close_pool)


async def part_backend(flavor, case, J):
    """Injected back-end exceptions at every operation (types from the scenario matrix)."""
    from ..scenarios import run_injected, applicable_faults, post_checks
    cnt = J.cnt
    ctype, shape = case["ctype"], case["shape"]
    res = await run_injected(flavor, ctype, shape, "alone", None)
    ops = list(res["sc"].net.ops)
    await guarded(flavor, res["sc"].api.close_pool)
    for idx, kind, fault in applicable_faults(ops):
        res = await run_injected(flavor, ctype, shape, "alone", ("fault", idx, fault))
        out = res["outcomes"].get("victim")
        await guarded(flavor, res["sc"].api.close_pool)
        if not res["fired"] or out is None:
            continue
        cnt["backend_faults"] += 1
        cnt["inputs"] += 1
        cnt["oracle_documented"] += 1
        cnt["oracle_no_hang"] += 1
        ctx = {"flavor": flavor, "type": ctype, "shape": shape, "fault": fault, "op": kind, "phase": res.get("inj_phase")}
        J.sigs.add(f"backend|{ctype}|{kind}|{fault}|{out.kind if out.kind != 'exc' else type(out.exc).__name__}")
        if res["run"].kind == "hang" or out.kind == "hang":
            J.v(f"hang:backend:{fault}@{kind}", "call hangs after an injected back-end failure", ctx)
        elif out.kind == "exc":
            if not documented(out.exc):
                J.v(f"undocumented:backend:{exc_name(out.exc)}", f"{fault}@{kind} in {res.get('inj_phase')}: {out.exc!r}", ctx)
                continue
            cnt["oracle_class"] += 1
            want = {"ConnectError": httpcore.ConnectError, "ConnectTimeout": httpcore.ConnectTimeout, "ReadError": httpcore.ReadError,
                    "ReadTimeout": httpcore.ReadTimeout, "EOF": (httpcore.RemoteProtocolError, httpcore.ProxyError),
                    "WriteError": None, "WriteTimeout": httpcore.WriteTimeout, "PartialWrite": None}[fault]
            # a write failure while sending the request may legitimately surface as whatever reading the response yields
            if want is not None and not isinstance(out.exc, want):
                proxy_stage = (res.get("inj_phase") or "").startswith(("socks.", "proxy."))
                if not (proxy_stage and isinstance(out.exc, httpcore.ProxyError)):
                    J.v(f"wrong-class:backend:{fault}:{type(out.exc).__name__}", f"injected {fault} at {kind} surfaced as {out.exc!r}", ctx)


async def part_workload(flavor, case, J):
    from ..workload import Workload
    cnt = J.cnt
    for spec in case["specs"]:
        wl = Workload(spec)
        wl.net.log_events = False
        await wl.run()
        for rec in wl.records:
            if rec.get("end") == "exc":
                cnt["workload_exceptions_seen"] += 1
                cnt["oracle_documented"] += 1
                exc = rec["exc"]
                J.sigs.add(f"workload|{spec['proto']}|{spec['proxy']}|{type(exc).__name__}")
                if not documented(exc):
                    J.v(f"undocumented:workload:{exc_name(exc)}", f"{rec['token']} ({rec['beh']}): {exc!r}", {"spec": spec, "token": rec["token"]})
                elif isinstance(exc, httpcore.LocalProtocolError) and rec["beh"] not in ("bad-upload", "bad-head"):
                    # LocalProtocolError says "the caller sent something illegal": the class must match the cause
                    cnt["oracle_class"] += 1
                    mech = ":send-headers-on-closed-h2-state" if "SEND_HEADERS in state ConnectionState.CLOSED" in str(exc) else ""
                    J.v(f"wrong-class:workload:{spec['proto']}:LocalProtocolError{mech}", f"{rec['token']} ({rec['beh']}), a legal request, "
                        f"failed with {exc!r}", {"spec": spec, "token": rec["token"]})
        try:
            await wl.api.close_pool()
        except Exception:  # noqa
            pass


def part_realsock(flavor, case, J):
    """Real sockets, real back-ends (not simulated): exception class per provoked cause."""
    from .. import realsock
    cnt = J.cnt
    # timeouts that certainly expire (zero) on the asynchronous back-ends: the class that reaches the caller
    for backend in ("anyio", "trio"):
        for cfg, want in realsock.ASYNC_LEDGER_EXPECT.items():
            if want is None:
                continue
            res = realsock.async_timeout_ledger(backend, cfg, cfg != "connect-zero")
            exc = res.get("exc")
            cnt["real_socket_runs"] = cnt.get("real_socket_runs", 0) + 1
            cnt["oracle_documented"] += 1
            cnt["oracle_class"] += 1
            J.sigs.add(f"realsock|{backend}|{cfg}|{type(exc).__name__}")
            if exc is None:
                continue  # (the timeout did not expire: C16's business)
            if not documented(exc):
                J.v(f"undocumented:realsock:{backend}:{exc_name(exc)}", f"{cfg}: {exc!r}", {"backend": backend, "config": cfg})
            elif not isinstance(exc, want):
                J.v(f"wrong-class:realsock:{backend}:{cfg}:{type(exc).__name__}", f"{cfg}: {exc!r}, expected {want.__name__}",
                    {"backend": backend, "config": cfg})
    backend = case["backend"]
    for b in realsock.BEHAVIOURS:
        res = realsock.run_one(backend, b)
        if res.get("outcome") == "n/a":
            continue
        cnt["inputs"] += 1
        cnt["real_socket_runs"] += 1
        cnt["oracle_documented"] += 1
        want = realsock.EXPECT[b]
        if want == "caller-error":
            continue  # (an argument of the wrong type: whatever Python raises for it is the caller's to see)
        ctx = {"backend": backend, "behaviour": b, "server_accepted": res.get("accepted")}
        exc = res.get("exc")
        J.sigs.add(f"realsock|{backend}|{b}|{res.get('outcome') if exc is None else type(exc).__name__}")
        if b != "refuse" and not res.get("accepted"):
            continue  # the provocation did not happen: inconclusive for this case, not a verdict
        if want is None:
            if res.get("outcome") != "ok":
                # a behaviour that is expected to succeed. Over real sockets on a loaded machine it can fail for reasons of
                # the environment (seen once: a TLS alert inside the TLS-in-TLS relay of the harness while all cores were
                # busy); what C15 decides is the class of what reaches the caller, so only an undocumented exception is a verdict
                # here - a documented failure is counted and tried once more
                cnt["real_socket_expected_ok_failed"] = cnt.get("real_socket_expected_ok_failed", 0) + 1
                if exc is not None and not documented(exc):
                    J.v(f"undocumented:realsock:{backend}:{exc_name(exc)}", f"{b}: {exc!r}", ctx)
                else:
                    res2 = realsock.run_one(backend, b)
                    exc2 = res2.get("exc")
                    if res2.get("outcome") != "ok" and exc2 is not None and not documented(exc2):
                        J.v(f"undocumented:realsock:{backend}:{exc_name(exc2)}", f"{b}: {exc2!r}", ctx)
                    elif res2.get("outcome") != "ok" and res2.get("accepted"):
                        J.v(f"realsock:request-failed-twice:{backend}:{b}", f"{exc!r}, then {exc2!r}", ctx)
        elif want == "cancelled":
            if res.get("outcome") != "cancelled":
                J.v(f"realsock:cancel-not-delivered:{backend}", f"{res.get('outcome')} {exc!r}", ctx)
        elif exc is None:
            pass  # the failure was not provoked (timing): inconclusive
        elif not documented(exc):
            J.v(f"undocumented:realsock:{backend}:{exc_name(exc)}", f"{b}: {exc!r}", ctx)
        else:
            cnt["oracle_class"] += 1
            if not isinstance(exc, want):
                J.v(f"wrong-class:realsock:{backend}:{b}:{type(exc).__name__}", f"{b}: {exc!r}; expected one of {[w.__name__ for w in want]}", ctx)


PARTS = {"realsock": part_realsock, "h1": part_h1, "h2": part_h2, "socks": part_socks, "connect": part_connect, "caller": part_caller, "scheme": part_scheme,
         "backend": part_backend, "workload": part_workload}


def run_case(case):
    flavor = case["flavor"]
    viol = []
    cnt = {k: 0 for k in REQUIRED}
    cnt["real_socket_runs"] = 0
    J = Judge(cnt, viol)
    if case["part"] == "realsock":
        part_realsock(flavor, case, J)
        sample = {"part": "realsock", "backend": case["backend"], "signatures": sorted(J.sigs)[:14]}
        return {"viol": viol, "counters": cnt, "sigs": sorted(J.sigs), "sample": sample}

    async def main():
        await PARTS[case["part"]](flavor, case, J)

    run_flavor(flavor, None, main, seed=case["seed"])
    sample = {"part": case["part"], "flavor": flavor, "signatures": sorted(J.sigs)[:8]}
    return {"viol": viol, "counters": cnt, "sigs": sorted(J.sigs), "sample": sample}


def plan(tier, seed):
    from ..scenarios import TYPES
    from ..workload import gen_spec
    r = random.Random(seed * 613 + 15)
    q = tier == "quick"
    cases = []
    flavors = ["asyncio", "trio", "sync"]
    k = 0
    for part, n_cases, n in (("h1", 12 if q else 120, 110 if q else 600), ("h2", 18 if q else 180, 70 if q else 400),
                             ("socks", 6 if q else 60, 100 if q else 500), ("connect", 6 if q else 60, 80 if q else 400)):
        for i in range(n_cases):
            cases.append({"part": part, "flavor": flavors[k % 3], "seed": r.randrange(1 << 30), "n": n})
            k += 1
    for f in flavors:
        cases.append({"part": "caller", "flavor": f, "seed": 0})
        cases.append({"part": "scheme", "flavor": f, "seed": 0})
    for be in ("sync", "anyio", "trio"):
        cases.append({"part": "realsock", "flavor": "sync", "backend": be, "seed": 0})
    for i, ctype in enumerate(TYPES):
        for shape in (["get"] if q else ["get", "post3", "stream-partial"]):
            cases.append({"part": "backend", "flavor": flavors[i % 3], "ctype": ctype, "shape": shape, "seed": 0})
    for i in range(8 if q else 80):
        f = ["asyncio", "trio"][i % 2]
        specs = [gen_spec(r, f) for _ in range(25)]
        for _ in range(5):
            # HTTP/2 servers that change MAX_CONCURRENT_STREAMS in legal but unusual sequences (down by a lot and up again,
            # values above the client's own cap of 100): whatever the slot bookkeeping makes of it, no builtin exception
            # may reach a caller
            hi, lo = r.choice([(100, 1), (1000, 10), (128, 2), (100, 98), (250, 3)])
            up = r.choice([hi, 100, 250])
            specs.append(gen_spec(r, f, proto="h2", proxy=None, n_origins=1, max_connections=1, n_callers=r.randint(3, 6),
                                  fault_ops=[], connect_fail=0.0, retries=0, h2_settings={3: hi},
                                  h2_script={"actions": [{"when": ["head", 1], "do": "settings", "settings": {"3": lo}},
                                                         {"when": [r.choice(["head", "end"]), r.choice([1, 2, 3])], "do": "settings",
                                                          "settings": {"3": up}}]}))
        cases.append({"part": "workload", "flavor": f, "specs": specs, "seed": r.randrange(1 << 30)})
    return cases
