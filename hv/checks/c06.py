"""C06 — every network stream that is opened is eventually closed.

Same single-injection enumeration as C05 (every op x fault kind, every suspension point x
cancellation style), judged by the stream ledger: at quiescence every open simulated
transport must be reachable (gc reachability through httpcore objects) from a connection in
pool.connections, and after pool.close() none may be open."""
from __future__ import annotations

from ..enum_core import run_enumeration, plan_cases

ID = "C06"
LEVEL = "fault_enumeration"
RULE = ("as C05: (connection type x request shape x context x flavour) x (every network op x fault kind) + (every "
        "suspension point x cancellation style); distinct+non-trivial = injection that fired, identified by "
        "(type, shape, context, flavour, injection label, trace phase); plus the real-socket tier: an fd ledger (/proc/self/fd) over "
        "the three real back-ends x 13 loopback server behaviours incl. failed, timed-out and cancelled TLS handshakes; plus "
        "'window' histories: a kept-alive connection whose server hangs up / whose keep-alive period runs out right after "
        "the pool polled it (7 connection types x 4 timings x 3 flavours); plus 'multi-evict': a pass that evicts 2-3 expired "
        "connections at once, the triggering request cancelled at every suspension point x style")
ASSUMPTIONS = ["simulated streams count as closed once close()/aclose() was *called* (as socket.close() precedes the "
               "checkpoint in the real back-ends)",
               "start_tls closes the transport on failure but not on cancellation, as the real back-ends do",
               "ownership = reachability from pool.connections through httpcore objects and builtin containers"]
REQUIRED = ["runs", "faults_fired", "cancels_fired", "oracle_quiescent_ownership", "oracle_closed_after_pool_close",
            "transports_opened"]


def judge(res, facts, inject, label, base, cnt):
    out = []
    net = res["sc"].net
    cnt["transports_opened"] += len(net.transports)
    cnt["oracle_quiescent_ownership"] += 1
    if facts["orphans"]:
        o = facts["orphans"][0]
        kind = "tls-wrapped" if o["layers"] else "plain"
        out.append((f"leak:orphan-at-quiescence:{kind}", {"orphans": facts["orphans"], "conns": facts["conns"]}))
    if any(n > 1 for n in facts["owned_per_conn"]):
        out.append(("connection-owns-several-open-streams", {"owned": facts["owned_per_conn"]}))
    cnt["oracle_closed_after_pool_close"] += 1
    if facts["open_after_close"] and not out:
        out.append(("leak:open-after-pool-close", {"open": facts["open_after_close"], "close_pool": facts["close_pool"]}))
    return out[:1]


def run_realsock(case):
    """fd ledger over the real back-ends: after the call, pool close and gc no socket opened for it may remain."""
    from .. import realsock
    viol = []
    cnt = {k: 0 for k in ["runs", "faults_fired", "cancels_fired", "oracle_quiescent_ownership", "oracle_closed_after_pool_close",
                          "transports_opened", "real_socket_runs", "fd_ledger_checks"]}
    sigs = []
    for b in realsock.BEHAVIOURS:
        res = realsock.run_one(case["backend"], b)
        if res.get("outcome") == "n/a":
            continue
        cnt["real_socket_runs"] += 1
        cnt["fd_ledger_checks"] += 1
        sigs.append(f"realsock|{case['backend']}|{b}")
        if res.get("resource_warnings"):
            viol.append({"key": f"realsock-unclosed-socket:{case['backend']}:{b}",
                         "what": f"socket(s) to the server never closed by the code (closed by the finaliser): {res['resource_warnings'][:2]}",
                         "detail": {"backend": case["backend"], "behaviour": b, "warnings": res["resource_warnings"]}})
        if res["fd_leak"]:
            viol.append({"key": f"realsock-fd-leak:{case['backend']}:{b}",
                         "what": f"{len(res['fd_leak'])} socket fd(s) still open after the call ({res.get('outcome')}), pool close and gc",
                         "detail": {"backend": case["backend"], "behaviour": b, "fds": res["fd_leak"]}})
    return {"viol": viol, "counters": cnt, "sigs": sigs, "sample": None}


def run_window(case):
    """Between the pool's look at a kept-alive connection and the connection's own activation the server hangs up, or
    the keep-alive period runs out (the simulated stream arms this on the readability poll). Whatever the request then
    does, a connection that leaves the pool must have closed its stream."""
    from .. import simnet, runners
    from ..scenarios import Sc
    from ..simnet import CALL
    from ..world import run_flavor, guarded, owned_transports
    flavor, ctype = case["flavor"], case["ctype"]
    viol = []
    cnt = {k: 0 for k in ["runs", "faults_fired", "cancels_fired", "oracle_quiescent_ownership", "oracle_closed_after_pool_close",
                          "transports_opened", "windows_armed", "windows_fired"]}
    sigs = []

    async def main():
        for arm in ("hangup-after-poll", "hangup-after-2nd-poll", "expire-after-poll", "hangup-and-expire"):
            for n_warm in (1, 2):
                sc = Sc(ctype, flavor, max_connections=2, resp_delay=0.0, keepalive_expiry=5.0)
                api = sc.api
                fired = []
                for i in range(n_warm):
                    CALL.set(f"warm{i}")
                    await guarded(flavor, lambda i=i: api.request("GET", sc.url(), headers=[("X-Token", f"warm{i}")]))
                await api.sleep(1.0)
                polls = {"n": 0}
                for tr in sc.net.transports:
                    if tr.closed:
                        continue

                    def hook(tr=tr):
                        polls["n"] += 1
                        if arm == "hangup-after-2nd-poll" and polls["n"] < 2:
                            tr.after_poll = hook
                            return
                        fired.append(tr.id)
                        if arm in ("hangup-after-poll", "hangup-after-2nd-poll", "hangup-and-expire"):
                            tr.server_close()
                        if arm in ("expire-after-poll", "hangup-and-expire"):
                            runners.SKEW[0] += 10.0
                    tr.after_poll = hook
                    cnt["windows_armed"] += 1
                CALL.set("probe")
                out = await guarded(flavor, lambda: api.request("GET", sc.url(), headers=[("X-Token", "probe")]))
                out2 = await guarded(flavor, lambda: api.request("GET", sc.url(), headers=[("X-Token", "probe2")]))
                cnt["runs"] += 1
                cnt["windows_fired"] += len(fired)
                cnt["transports_opened"] += len(sc.net.transports)
                ctx = {"case": case, "arm": arm, "warm_requests": n_warm, "probe": repr(out), "probe2": repr(out2),
                       "fired_on": fired}
                if fired:
                    sigs.append(f"window|{ctype}|{flavor}|{arm}|{n_warm}|{out.kind}")
                if out.kind == "hang" or out2.kind == "hang":
                    viol.append({"key": f"window:hang:{arm}", "what": f"{out!r} {out2!r}", "detail": ctx})
                cnt["oracle_quiescent_ownership"] += 1
                owned = set()
                for c in sc.pool.connections:
                    owned |= owned_transports(c)
                orphans = [t.id for t in sc.net.transports if not t.closed and t.id not in owned]
                if orphans:
                    viol.append({"key": f"leak:orphan-at-quiescence:window:{arm}",
                                 "what": f"open stream(s) {orphans} belong to no pooled connection after the request "
                                         f"({out!r})", "detail": ctx})
                await guarded(flavor, api.close_pool)
                cnt["oracle_closed_after_pool_close"] += 1
                still = [t.id for t in sc.net.transports if not t.closed]
                if still and not orphans:
                    viol.append({"key": f"leak:open-after-pool-close:window:{arm}", "what": f"{still}", "detail": ctx})
                runners.SKEW[0] = 0.0

    run_flavor(flavor, None, main, seed=0)
    seen = set()
    out = []
    for x in viol:
        if x["key"] not in seen:
            seen.add(x["key"])
            out.append(x)
    return {"viol": out, "counters": cnt, "sigs": sigs, "sample": None}


def run_multi_evict(case):
    """One pass of the pool that evicts SEVERAL connections (expired idle ones), with the request that triggered it
    cancelled at each of its suspension points in turn - in particular inside the closing of the first evicted connection.
    Every evicted connection's stream must still be closed."""
    from .. import simnet, endpoints, runners
    from ..simnet import CALL
    from ..world import mk_pool, API, run_flavor, guarded, owned_transports
    flavor = case["flavor"]
    viol = []
    cnt = {k: 0 for k in ["runs", "faults_fired", "cancels_fired", "oracle_quiescent_ownership", "oracle_closed_after_pool_close",
                          "transports_opened", "multi_evict_runs"]}
    sigs = []

    extra = {}
    extras = []

    async def one(n_idle, style, k):
        extra.clear()
        net = simnet.Net()
        for i in range(n_idle + 1):
            endpoints.Origin(net, f"o{i}.test", 80)
        pool = mk_pool(flavor, net, max_connections=n_idle + 1, keepalive_expiry=1.0)
        api = API(flavor, pool, net)
        for i in range(n_idle):
            CALL.set(f"w{i}")
            await guarded(flavor, lambda i=i: api.request("GET", f"http://o{i}.test/", headers=[("X-Token", f"w{i}")]))
        await api.sleep(5.0)     # all of them have expired; the next pass evicts them together
        CALL.set("victim")
        fired = []
        out, K = await runners.run_with_cancel(
            flavor, lambda: api.request("GET", f"http://o{n_idle}.test/", headers=[("X-Token", "victim")]), style, k,
            on_fire=lambda: fired.append(1))
        await api.sleep(1.0)
        owned = set()
        for c in pool.connections:
            owned |= owned_transports(c)
        orphans = [t.id for t in net.transports if not t.closed and t.id not in owned]
        # for C05: the pool's own accounting, and whether its capacity is still there
        from ..world import pool_counts, exc_name
        extra["counts"] = pool_counts(pool)
        extra["conns"] = [c.info() for c in pool.connections]
        CALL.set("followup")
        fu = await guarded(flavor, lambda: api.request("GET", f"http://o{n_idle}.test/again", headers=[("X-Token", "followup")],
                                                       extensions={"timeout": {"pool": 1.0}}))
        extra["followup"] = "ok" if fu.kind == "ok" and fu.value.status == 200 else (exc_name(fu.exc) if fu.kind == "exc" else fu.kind)
        await guarded(flavor, api.close_pool)
        still = [t.id for t in net.transports if not t.closed]
        return K, bool(fired), orphans, still, repr(out)

    async def main():
        for n_idle in (2, 3):
            K, _, _, _, _ = await one(n_idle, None, None)
            styles = ["scope-before", "scope-after"] + (["native"] if flavor == "asyncio" else [])
            for style in styles:
                for k in range(1, K + 2):
                    K2, fired, orphans, still, outr = await one(n_idle, style, k)
                    cnt["runs"] += 1
                    cnt["multi_evict_runs"] += 1
                    cnt["transports_opened"] += n_idle + 1
                    if not fired:
                        continue
                    extras.append({"n_idle": n_idle, "style": style, "k": k, **extra})
                    cnt["cancels_fired"] += 1
                    cnt["oracle_quiescent_ownership"] += 1
                    cnt["oracle_closed_after_pool_close"] += 1
                    sigs.append(f"multi-evict|{flavor}|{n_idle}|{style}|{k}")
                    ctx = {"flavor": flavor, "expired_idle_connections": n_idle, "style": style, "k": k, "outcome": outr}
                    if orphans:
                        key = f"leak:orphan-at-quiescence:multi-evict:{style}"
                        if not any(x["key"] == key for x in viol):
                            viol.append({"key": key, "what": f"stream(s) {orphans} of connections evicted in the pass are still open "
                                                              f"(cancelled at suspension point {k})", "detail": ctx})
                    elif still:
                        key = f"leak:open-after-pool-close:multi-evict:{style}"
                        if not any(x["key"] == key for x in viol):
                            viol.append({"key": key, "what": f"{still}", "detail": ctx})

    run_flavor(flavor, None, main, seed=0)
    return {"viol": viol, "counters": cnt, "sigs": sigs, "sample": None, "extras": extras}


def run_case(case):
    if case.get("realsock"):
        return run_realsock(case)
    if case.get("multi_evict"):
        res = run_multi_evict(case)
        res.pop("extras", None)
        return res
    if case.get("window"):
        return run_window(case)
    return run_enumeration(case, judge, {"oracle_quiescent_ownership": 0, "oracle_closed_after_pool_close": 0,
                                         "transports_opened": 0})


def plan(tier, seed):
    windows = [{"window": True, "ctype": ct, "flavor": fl} for ct in ("h1", "h1tls", "h2", "fwd", "tun", "socks", "maybe-h2")
               for fl in ("asyncio", "trio", "sync")]
    return (plan_cases(tier, seed + 1000) + [{"realsock": True, "backend": be} for be in ("sync", "anyio", "trio")]
            + windows + [{"multi_evict": True, "flavor": fl} for fl in ("asyncio", "trio")])
