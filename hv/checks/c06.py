"""C06 — every network stream that is opened is eventually closed.

Same single-injection enumeration as C05 (every op x fault kind, every suspension point x
cancellation style), judged by the stream ledger: at quiescence every open simulated
transport must be reachable (gc reachability through httpcore objects) from a connection in
pool.connections, and after pool.close() none may be open."""
from __future__ import annotations

from ..enum_core import run_enumeration, plan_cases

ID = "C06"
LEVEL = "fault_enumeration"
RULE = ("as C05: (connection type x request shape x context x flavour) x (every network op x fault kind) + (every "
        "suspension point x cancellation style); distinct+non-trivial = injection that fired, identified by "
        "(type, shape, context, flavour, injection label, trace phase); plus the real-socket tier: an fd ledger (/proc/self/fd) over "
        "the three real back-ends x 13 loopback server behaviours incl. failed, timed-out and cancelled TLS handshakes")
ASSUMPTIONS = ["simulated streams count as closed once close()/aclose() was *called* (as socket.close() precedes the "
               "checkpoint in the real back-ends)",
               "start_tls closes the transport on failure but not on cancellation, as the real back-ends do",
               "ownership = reachability from pool.connections through httpcore objects and builtin containers"]
REQUIRED = ["runs", "faults_fired", "cancels_fired", "oracle_quiescent_ownership", "oracle_closed_after_pool_close",
            "transports_opened"]


def judge(res, facts, inject, label, base, cnt):
    out = []
    net = res["sc"].net
    cnt["transports_opened"] += len(net.transports)
    cnt["oracle_quiescent_ownership"] += 1
    if facts["orphans"]:
        o = facts["orphans"][0]
        kind = "tls-wrapped" if o["layers"] else "plain"
        out.append((f"leak:orphan-at-quiescence:{kind}", {"orphans": facts["orphans"], "conns": facts["conns"]}))
    if any(n > 1 for n in facts["owned_per_conn"]):
        out.append(("connection-owns-several-open-streams", {"owned": facts["owned_per_conn"]}))
    cnt["oracle_closed_after_pool_close"] += 1
    if facts["open_after_close"] and not out:
        out.append(("leak:open-after-pool-close", {"open": facts["open_after_close"], "close_pool": facts["close_pool"]}))
    return out[:1]


def run_realsock(case):
    """fd ledger over the real back-ends: after the call, pool close and gc no socket opened for it may remain."""
    from .. import realsock
    viol = []
    cnt = {k: 0 for k in ["runs", "faults_fired", "cancels_fired", "oracle_quiescent_ownership", "oracle_closed_after_pool_close",
                          "transports_opened", "real_socket_runs", "fd_ledger_checks"]}
    sigs = []
    for b in realsock.BEHAVIOURS:
        res = realsock.run_one(case["backend"], b)
        if res.get("outcome") == "n/a":
            continue
        cnt["real_socket_runs"] += 1
        cnt["fd_ledger_checks"] += 1
        sigs.append(f"realsock|{case['backend']}|{b}")
        if res.get("resource_warnings"):
            viol.append({"key": f"realsock-unclosed-socket:{case['backend']}:{b}",
                         "what": f"socket(s) to the server never closed by the code (closed by the finaliser): {res['resource_warnings'][:2]}",
                         "detail": {"backend": case["backend"], "behaviour": b, "warnings": res["resource_warnings"]}})
        if res["fd_leak"]:
            viol.append({"key": f"realsock-fd-leak:{case['backend']}:{b}",
                         "what": f"{len(res['fd_leak'])} socket fd(s) still open after the call ({res.get('outcome')}), pool close and gc",
                         "detail": {"backend": case["backend"], "behaviour": b, "fds": res["fd_leak"]}})
    return {"viol": viol, "counters": cnt, "sigs": sigs, "sample": None}


def run_case(case):
    if case.get("realsock"):
        return run_realsock(case)
    return run_enumeration(case, judge, {"oracle_quiescent_ownership": 0, "oracle_closed_after_pool_close": 0,
                                         "transports_opened": 0})


def plan(tier, seed):
    return plan_cases(tier, seed + 1000) + [{"realsock": True, "backend": be} for be in ("sync", "anyio", "trio")]
