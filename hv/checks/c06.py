"""C06 — every network stream that is opened is eventually closed.

Same single-injection enumeration as C05 (every op x fault kind, every suspension point x
cancellation style), judged by the stream ledger: at quiescence every open simulated
transport must be reachable (gc reachability through httpcore objects) from a connection in
pool.connections, and after pool.close() none may be open."""
from __future__ import annotations

from ..enum_core import run_enumeration, plan_cases

ID = "C06"
LEVEL = "fault_enumeration"
RULE = ("as C05: (connection type x request shape x context x flavour) x (every network op x fault kind) + (every "
        "suspension point x cancellation style); distinct+non-trivial = injection that fired, identified by "
        "(type, shape, context, flavour, injection label, trace phase)")
ASSUMPTIONS = ["simulated streams count as closed once close()/aclose() was *called* (as socket.close() precedes the "
               "checkpoint in the real back-ends)",
               "start_tls closes the transport on failure but not on cancellation, as the real back-ends do",
               "ownership = reachability from pool.connections through httpcore objects and builtin containers"]
REQUIRED = ["runs", "faults_fired", "cancels_fired", "oracle_quiescent_ownership", "oracle_closed_after_pool_close",
            "transports_opened"]


def judge(res, facts, inject, label, base, cnt):
    out = []
    net = res["sc"].net
    cnt["transports_opened"] += len(net.transports)
    cnt["oracle_quiescent_ownership"] += 1
    if facts["orphans"]:
        o = facts["orphans"][0]
        kind = "tls-wrapped" if o["layers"] else "plain"
        out.append((f"leak:orphan-at-quiescence:{kind}", {"orphans": facts["orphans"], "conns": facts["conns"]}))
    if any(n > 1 for n in facts["owned_per_conn"]):
        out.append(("connection-owns-several-open-streams", {"owned": facts["owned_per_conn"]}))
    cnt["oracle_closed_after_pool_close"] += 1
    if facts["open_after_close"] and not out:
        out.append(("leak:open-after-pool-close", {"open": facts["open_after_close"], "close_pool": facts["close_pool"]}))
    return out[:1]


def run_case(case):
    return run_enumeration(case, judge, {"oracle_quiescent_ownership": 0, "oracle_closed_after_pool_close": 0,
                                         "transports_opened": 0})


def plan(tier, seed):
    return plan_cases(tier, seed + 1000)
