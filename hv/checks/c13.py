"""C13 — HTTP/2 flow control is obeyed and never starves a transfer.

The h2 server role must raise no FlowControlError / FrameTooLargeError AND the independent
window ledger (connection + per-stream, most permissive of old/new settings until ACK) must
never go negative; uploads arrive complete and in order; bounded progress in virtual time is
the starvation oracle (after the reopening WINDOW_UPDATE the endpoint sends nothing more);
downloads beyond the client's 16 MiB credit complete only if credit is returned."""
from __future__ import annotations

import random

import anyio

from .. import REPO  # noqa: F401
import httpcore

from .. import simnet, endpoints, runners
from ..endpoints import Resp
from ..simnet import CALL
from ..world import mk_pool, API, run_flavor, guarded, exc_name

ID = "C13"
LEVEL = "exploration"
RULE = ("uploads: body size {0,1,16383,16384,16385,65535,65536,100k,1M(,5M)} x body chunking {one, 1000-byte, 70000-byte, "
        "mixed} x server INITIAL_WINDOW_SIZE {1,100,16384,65535,1M} x MAX_FRAME_SIZE {16384,65536,2^24-1} x credit policy "
        "{auto, drip:1, drip:1000, stream-first, conn-first, late, big-once, dep = the first stream's credit is withheld until "
        "the other concurrent uploads have arrived} x 1-3 uploads sharing the connection window x "
        "flavour (bounded to <= 6000 DATA frames per transfer); downloads {0,1,65535,1M,17M(,40M)} and padded ones (pad 0/7/255; 70,000 one-byte frames with 255 bytes of padding "
        "exceed the client's whole credit); 1100 x 16384-byte responses "
        "on one connection (each ending with a data-carrying END_STREAM frame; 18 MB > the 16 MiB credit); distinct+non-trivial = "
        "parameter tuple in which a window actually closed (ledger minimum <= 0) or the download exceeded the initial credit")
ASSUMPTIONS = ["window accounting per RFC 9113 6.9 with the most permissive of old/new INITIAL_WINDOW_SIZE / MAX_FRAME_SIZE until "
               "the client ACKs", "the endpoint gives credit only as its policy says; policy 'big-once' sends one large "
               "connection-level update when the connection window is exhausted and nothing afterwards"]
REQUIRED = ["transfers", "oracle_windows", "oracle_upload_bytes", "oracle_progress", "windows_exhausted", "downloads_beyond_credit"]

SC_IWS, SC_MFS, SC_MCS = 4, 5, 3


def chunking(r, size, kind):
    if size == 0:
        return [b""] if kind == "one" else []
    if kind == "one":
        sizes = [size]
    elif kind == "one+empty":
        sizes = [size, 0]           # e.g. a file wrapper that yields b"" at EOF
    elif kind == "empty+halves+empty":
        sizes = [0, size // 2, 0, size - size // 2, 0]
    elif kind == "1000":
        sizes = [1000] * (size // 1000) + ([size % 1000] if size % 1000 else [])
    elif kind == "70000":
        sizes = [70000] * (size // 70000) + ([size % 70000] if size % 70000 else [])
    else:
        sizes = []
        left = size
        while left:
            n = min(left, r.choice([1, 7, 1000, 16384, 65536, 0]))
            sizes.append(n)
            left -= n
    out = []
    pos = 0
    for n in sizes:
        out.append(bytes((pos + i) % 251 for i in range(min(n, 64))) * (n // 64 + 1))
        out[-1] = out[-1][:n]
        pos += n
    return out


async def run_upload(flavor, p, cnt, v, sigs):
    r = random.Random(p["seed"])
    net = simnet.Net()
    net.log_events = False
    settings = {SC_MCS: 100, SC_IWS: p["iws"], SC_MFS: p["mfs"]}
    win = p["policy"]
    if win == "dep":
        # the first upload's stream credit depends on the other uploads having arrived; a sequential (sync) caller cannot
        # satisfy that, it gets the policy without the dependency
        win = f"dep:{p['n']}" if flavor != "sync" else "dep:1"
    script = {"settings": settings, "win": win}
    if p.get("iws_change") is not None:
        # the server changes INITIAL_WINDOW_SIZE while the upload is in progress (RFC 9113 6.9.2: a decrease can make
        # the stream window negative; the sender must wait until it is positive again)
        script["actions"] = [{"when": ("head", 0), "do": "settings", "settings": {SC_IWS: p["iws_change"]}}]
    if p.get("mfs_change") is not None:
        # the server lowers MAX_FRAME_SIZE while a body chunk is being sent; the client has learnt the larger value
        # before (a warm-up request on the same connection)
        script["actions"] = script.get("actions", []) + [{"when": ("head", 1), "do": "settings",
                                                           "settings": {SC_MFS: p["mfs_change"]}}]
    origin = endpoints.Origin(net, "o.test", 443, tls=True, alpn=["h2"], h2_script=script)
    pool = mk_pool(flavor, net, http2=True, max_connections=1)
    api = API(flavor, pool, net)
    if p.get("mfs_change") is not None:
        CALL.set("warm")
        await guarded(flavor, lambda: api.request("GET", "https://o.test/warm", headers=[("X-Token", "warm")]))
    bodies = {}
    for i in range(p["n"]):
        bodies[f"u{i}"] = chunking(r, p["size"], p["chunking"])

    async def one(name):
        CALL.set(name)
        resp = await api.request("POST", "https://o.test/up", headers=[("X-Token", name)], content=api.body(bodies[name]))
        return resp.status

    async def body():
        if p["n"] == 1 or flavor == "sync":
            return {k: await guarded(flavor, lambda k=k: one(k)) for k in bodies}
        return await runners.gather({k: (lambda k=k: one(k)) for k in bodies})

    out = await guarded(flavor, body)
    cnt["transfers"] += p["n"]
    ctx = {"params": p, "flavor": flavor}
    srv = [c.h2 for c in origin.conns if c.h2 is not None]
    exhausted = False
    for s in srv:
        cnt["oracle_windows"] += s.ledger.by_type.get(0, 0)
        for viol_ in s.ledger.violations:
            if viol_["kind"] in ("stream-window-exceeded", "connection-window-exceeded", "frame-too-large"):
                v("flow:" + viol_["kind"], f"{viol_}", ctx)
        if s.protocol_error is not None:
            v("server-role:" + type(s.protocol_error).__name__, str(s.protocol_error), ctx)
        if s.ledger.min_conn_window <= 0 or any(w <= 0 for w in s.ledger.stream_window.values()) or p["size"] > p["iws"]:
            exhausted = True
    if exhausted:
        cnt["windows_exhausted"] += 1
        sigs.add(f"up|{p['size']}|{p['chunking']}|{p['iws']}|{p['mfs']}|{p['policy']}|{p['n']}|{p.get('iws_change')}|{p.get('mfs_change')}|{flavor}")
    cnt["oracle_progress"] += 1
    if out.kind == "hang":
        by = {r_.token.decode(): len(r_.body) for r_ in origin.requests if r_.token}
        v(f"upload-starved:{p['policy']}:n{p['n']}" + (":iws-change" if p.get("iws_change") is not None else ""), f"upload(s) never completed; bytes that reached the server {by} of "
          f"{p['size']} each; connection window at server {srv[0].ledger.conn_window if srv else None}, stream windows "
          f"{dict(srv[0].ledger.stream_window) if srv else None}", ctx)
    else:
        res = out.value if out.kind == "ok" else {}
        for name, parts in bodies.items():
            o = res.get(name)
            cnt["oracle_upload_bytes"] += 1
            got = [r_ for r_ in origin.requests if r_.token == name.encode()]
            want = b"".join(parts)
            if o is None or o.kind != "ok":
                v(f"upload-failed:{exc_name(o.exc) if o is not None and o.kind == 'exc' else 'missing'}", f"{o!r}", ctx)
            elif not got or bytes(got[0].body) != want:
                n_got = len(got[0].body) if got else 0
                v("upload-bytes-differ", f"server received {n_got} bytes, caller sent {len(want)}", ctx)
            elif not got[0].complete:
                v("upload-not-ended", "END_STREAM never seen", ctx)
    await guarded(flavor, api.close_pool)


async def run_download(flavor, p, cnt, v, sigs):
    net = simnet.Net()
    net.log_events = False
    size = p["size"]
    pattern = bytes(range(256)) * 64

    def responder(req, origin):
        body = (pattern * (size // len(pattern) + 1))[:size]
        return Resp(200, b"OK", [(b"X-Echo", req.token or b"-")], body)

    origin = endpoints.Origin(net, "o.test", 443, tls=True, alpn=["h2"], responder=responder,
                              h2_script={"settings": {SC_MCS: 100}, "data_chunk": p["data_chunk"], "pad": p.get("pad")})
    pool = mk_pool(flavor, net, http2=True, max_connections=1)
    api = API(flavor, pool, net)
    total = {"n": 0, "ok": True}

    async def one():
        resp, cm = await api.open("GET", "https://o.test/down", headers=[("X-Token", "d0")])
        try:
            if api.a:
                async for c in resp.aiter_stream():
                    n = total["n"]
                    if c != (pattern * 3)[n % len(pattern):n % len(pattern) + len(c)] and len(c) <= 2 * len(pattern):
                        total["ok"] = False
                    total["n"] += len(c)
            else:
                for c in resp.iter_stream():
                    n = total["n"]
                    if c != (pattern * 3)[n % len(pattern):n % len(pattern) + len(c)] and len(c) <= 2 * len(pattern):
                        total["ok"] = False
                    total["n"] += len(c)
        finally:
            await api.close(cm)
        return resp.status

    out = await guarded(flavor, one)
    cnt["transfers"] += 1
    cnt["oracle_progress"] += 1
    ctx = {"params": p, "flavor": flavor}
    if size > 2 ** 24:
        cnt["downloads_beyond_credit"] += 1
    sigs.add(f"down|{size}|{p['data_chunk']}|pad{p.get('pad')}|{flavor}")
    if p.get("pad") is not None:
        cnt["padded_downloads"] = cnt.get("padded_downloads", 0) + 1
    if out.kind == "hang":
        v("download-stalled", f"download of {size} bytes stalled after {total['n']} bytes (flow-control credit not returned?)", ctx)
    elif out.kind != "ok":
        v(f"download-failed:{exc_name(out.exc)}", f"{out!r}", ctx)
    elif total["n"] != size or not total["ok"]:
        v("download-bytes-differ", f"received {total['n']} of {size} bytes, content ok={total['ok']}", ctx)
    srv = [c.h2 for c in origin.conns if c.h2 is not None]
    for s in srv:
        if s.protocol_error is not None:
            v("server-role:" + type(s.protocol_error).__name__, str(s.protocol_error), ctx)
    await guarded(flavor, api.close_pool)


async def run_many_downloads(flavor, p, cnt, v, sigs):
    """Many responses on ONE connection, each ending with a data-carrying END_STREAM frame: the connection-level
    credit consumed by all of them together exceeds the client's initial 16 MiB, so credit must be returned for
    every DATA frame, including the last one of each stream."""
    net = simnet.Net()
    net.log_events = False
    size = p["size"]

    def responder(req, origin):
        return Resp(200, b"OK", [(b"X-Echo", req.token or b"-")], b"m" * size)

    origin = endpoints.Origin(net, "o.test", 443, tls=True, alpn=["h2"], responder=responder,
                              h2_script={"settings": {SC_MCS: 100}, "data_chunk": 16384})
    pool = mk_pool(flavor, net, http2=True, max_connections=1)
    api = API(flavor, pool, net)
    done = {"n": 0}

    abandon = p.get("abandon")

    async def many():
        for i in range(p["count"]):
            if abandon and i < p["count"] - 3:
                # the caller gives the response up: unread ('head'), or after its first chunk ('chunk'). The DATA frames that
                # had already arrived for it used up connection-level credit all the same
                resp, cm = await api.open("GET", "https://o.test/m", headers=[("X-Token", f"m{i}")])
                if abandon == "chunk":
                    await api.chunks(resp, limit=1)
                await api.close(cm)
                done["n"] += 1
                continue
            r_ = await api.request("GET", "https://o.test/m", headers=[("X-Token", f"m{i}")])
            if len(r_.content) != size:
                return False
            done["n"] += 1
        return True

    out = await guarded(flavor, many)
    cnt["transfers"] += done["n"]
    cnt["oracle_progress"] += 1
    cnt["downloads_beyond_credit"] += 1
    ctx = {"params": p, "flavor": flavor}
    sigs.add(f"many|{size}|{p['count']}|{flavor}|{abandon}")
    cnt["abandoned_downloads"] = cnt.get("abandoned_downloads", 0) + (max(p["count"] - 3, 0) if abandon else 0)
    srv = [c.h2 for c in origin.conns if c.h2 is not None]
    win = srv[0].conn.outbound_flow_control_window if srv else None
    if out.kind == "hang":
        v("download-stalled:many-responses" + (":after-abandoned-responses" if abandon else ""), f"response {done['n'] + 1} of {p['count']} x {size} bytes on one connection never "
          f"arrived: the server's view of the client's connection window is {win} (credit for consumed DATA not returned)", ctx)
    elif abandon and out.kind == "ok" and out.value is True and win is not None and win < (65535 + 2 ** 24) // 4:
        # credit conservation: the h2 package batches connection-level WINDOW_UPDATEs (at most half the window is ever owed),
        # so once everything has been read or given up the server must see well over a quarter of the window again. A leak
        # that is not (yet) a stall shows here: what is left of the window keeps circulating, only ever more slowly.
        cnt["oracle_credit_conserved"] = cnt.get("oracle_credit_conserved", 0) + 1
        v("connection-credit-leaked:after-abandoned-responses", f"after {p['count']} responses of {size} bytes ({abandon}: given up) and "
          f"three complete downloads the server may send only {win} more bytes on the connection (initial window {65535 + 2 ** 24})", ctx)
    elif out.kind != "ok" or out.value is not True:
        v(f"download-failed:many-responses:{exc_name(out.exc) if out.kind == 'exc' else 'short'}", f"{out!r}", ctx)
    elif len(net.transports) != 1:
        v("many-responses-not-on-one-connection", f"{len(net.transports)} connections", ctx)
    if out.kind == "ok":
        # exact conservation, read off the client's own window manager: nothing received may be neither returned nor noted
        from ..world import h2_credit_leaks
        cnt["oracle_credit_conserved"] = cnt.get("oracle_credit_conserved", 0) + 1
        for leak in h2_credit_leaks(pool):
            v("connection-credit-leaked:many-responses", f"after {p['count']} responses of {size} bytes ({abandon or 'all read'}) the "
              f"connection owes {leak['owed']} bytes of credit that it has not noted for return ({leak})", ctx)
    await guarded(flavor, api.close_pool)


async def run_held_download(flavor, p, cnt, v, sigs):
    """Two responses share the client's connection-level credit: the first one (almost the whole 16 MiB + 65,535) is
    opened and left unread, so its DATA is buffered without being acknowledged while the second one is read; the second
    one drives the connection window to zero and can only finish if the credit for *its own* frames is returned at once.
    (The slack left by the held response is > 1024 bytes: below that the h2 package's window manager withholds the update
    for the few bytes consumed - progress then depends on the held response being read, which is the caller's choice.)"""
    net = simnet.Net()
    net.log_events = False
    first = 65535 + 2 ** 24 - p["slack"]
    second = p["size"]

    def responder(req, origin):
        n = first if req.target.endswith(b"first") else second
        return Resp(200, b"OK", [(b"X-Echo", req.token or b"-")], (b"f" if n == first else b"s") * n)

    origin = endpoints.Origin(net, "o.test", 443, tls=True, alpn=["h2"], responder=responder,
                              h2_script={"settings": {SC_MCS: 100}, "data_chunk": 16384})
    pool = mk_pool(flavor, net, http2=True, max_connections=1)
    api = API(flavor, pool, net)
    got = {"second": None, "first": None}

    async def scen():
        resp, cm = await api.open("GET", "https://o.test/first", headers=[("X-Token", "h0")])
        try:
            r2 = await api.request("GET", "https://o.test/second", headers=[("X-Token", "h1")])
            got["second"] = (len(r2.content), r2.content.count(b"s"))
            body = await api.read(resp)
            got["first"] = (len(body), body.count(b"f"))
        finally:
            await api.close(cm)
        return True

    out = await guarded(flavor, scen)
    cnt["transfers"] += 2
    cnt["oracle_progress"] += 1
    cnt["downloads_beyond_credit"] += 1
    cnt["held_downloads"] = cnt.get("held_downloads", 0) + 1
    ctx = {"params": p, "flavor": flavor}
    sigs.add(f"held|{p['slack']}|{second}|{flavor}")
    srv = [c.h2 for c in origin.conns if c.h2 is not None]
    win = srv[0].conn.outbound_flow_control_window if srv else None
    for s_ in srv:
        cnt["oracle_windows"] += s_.ledger.frames
        for viol_ in s_.ledger.violations:
            v("ledger:" + viol_["kind"], f"{viol_}", ctx)
    if out.kind == "hang":
        which = "second" if got["second"] is None else "first"
        v("download-stalled:held-response", f"the {which} of two responses sharing the connection window never completed (the "
          f"server's view of the client's connection window, after the stalled calls were torn down: {win})", ctx)
    elif out.kind != "ok":
        v(f"download-failed:held-response:{exc_name(out.exc) if out.kind == 'exc' else out.kind}", f"{out!r}", ctx)
    elif got["second"] != (second, second) or got["first"] != (first, first):
        v("download-bytes-differ:held-response", f"{got} for sizes first={first} second={second}", ctx)
    elif len(net.transports) != 1:
        v("held-responses-not-on-one-connection", f"{len(net.transports)} connections", ctx)
    await guarded(flavor, api.close_pool)


def run_case(case):
    flavor = case["flavor"]
    viol = []
    cnt = {k: 0 for k in REQUIRED}
    sigs = set()
    sample = {}

    def v(key, what, detail):
        if not any(x["key"] == key for x in viol):
            viol.append({"key": key, "what": what, "detail": detail})

    async def main():
        for p in case["params"]:
            if p["dir"] == "up":
                await run_upload(flavor, p, cnt, v, sigs)
            elif p["dir"] == "many":
                await run_many_downloads(flavor, p, cnt, v, sigs)
            elif p["dir"] == "held":
                await run_held_download(flavor, p, cnt, v, sigs)
            else:
                await run_download(flavor, p, cnt, v, sigs)
            if not sample:
                sample.update(p)

    run_flavor(flavor, None, main, seed=case["seed"])
    return {"viol": viol, "counters": cnt, "sigs": sorted(sigs), "sample": sample or None}


def plan(tier, seed):
    r = random.Random(seed * 53 + 13)
    sizes = [0, 1, 16383, 16384, 16385, 65535, 65536, 100_000, 1_000_000] + ([5_000_000] if tier != "quick" else [])
    policies = ["auto", "drip:1", "drip:1000", "stream-first", "conn-first", "late", "big-once", "dep", "dep"]
    params = []
    n_up = 420 if tier == "quick" else 6000
    while len(params) < n_up:
        size = r.choice(sizes)
        iws = r.choice([1, 100, 16384, 65535, 1_000_000])
        mfs = r.choice([16384, 65536, 2 ** 24 - 1])
        pol = r.choice(policies)
        n = r.choice([1, 1, 2, 3]) if pol != "dep" else r.choice([2, 2, 3])
        frames = size / max(1, min(iws, mfs, 16384 if pol != "drip:1" else 1))
        if pol == "drip:1":
            frames = size
        if frames * n > 6000:
            continue
        chg = None
        if r.random() < 0.2 and pol in ("auto", "drip:1000", "stream-first", "conn-first") and size >= 16384:
            chg = r.choice([100, 4096, 16384, 200_000])
            if size / max(1, min(chg, iws, 16384)) * n > 6000:
                chg = None
        params.append({"dir": "up", "size": size, "chunking": r.choice(["one", "1000", "70000", "mixed"]), "iws": iws, "mfs": mfs,
                       "policy": pol, "n": n, "seed": r.randrange(1 << 30), "iws_change": chg})
        if mfs > 16384 and size >= 65536 and iws >= 65535 and chg is None and r.random() < 0.5 and pol != "dep":
            params[-1]["mfs_change"] = r.choice([16384, 16384, 20000])
    # zero-length chunks at the moment the window is shut for good: the body fills the window exactly and the server,
    # which has all it was promised, sends no credit at all - an empty chunk needs none
    for iws, size in ((65535, 65535), (16384, 16384), (100, 100), (1_000_000, 65535)):
        for kind in ("one+empty", "empty+halves+empty"):
            params.append({"dir": "up", "size": size, "chunking": kind, "iws": iws, "mfs": 16384, "policy": "none", "n": 1,
                           "seed": r.randrange(1 << 30), "iws_change": None})
    downs = [0, 1, 65535, 1_000_000, 17 * 2 ** 20] + ([40 * 2 ** 20] if tier != "quick" else [])
    for size in downs:
        for dc in ([16384] if size > 2 ** 20 else [1, 16384] if size <= 65535 else [16384, 4000]):
            params.append({"dir": "down", "size": size, "data_chunk": dc})
    # padded DATA frames: the padding counts against both windows (RFC 9113 6.1), so credit must be returned for it too;
    # 70,000 one-byte frames with 255 bytes of padding each consume more than the client's whole 16 MiB + 65,535 credit
    params.append({"dir": "down", "size": 1000, "data_chunk": 100, "pad": 7})
    params.append({"dir": "down", "size": 200_000, "data_chunk": 1000, "pad": 0})
    padded_big = [{"dir": "down", "size": 70_000, "data_chunk": 1, "pad": 255}]
    cases = []
    flavors = ["asyncio", "trio", "sync"]
    big = [p for p in params if p["dir"] == "down" and p["size"] > 2 ** 20] + padded_big
    rest = [p for p in params if p not in big]
    n_cases = 45
    for i in range(n_cases):
        cases.append({"flavor": flavors[i % 3], "params": rest[i::n_cases], "seed": seed + i})
    for i, p in enumerate(big):
        for f in (flavors if tier != "quick" else [flavors[i % 3]]):
            cases.append({"flavor": f, "params": [p], "seed": seed + 100 + i})
    for i, (size, count) in enumerate([(16384, 1100), (1, 200), (16385, 600)] + ([(100, 3000), (16384, 2600)] if tier != "quick" else [])):
        for f in (flavors if tier != "quick" or size == 16384 else [flavors[i % 3]]):
            cases.append({"flavor": f, "params": [{"dir": "many", "size": size, "count": count}], "seed": seed + 200 + i})
    for i, (size, count, how) in enumerate([(65536, 500, "head"), (65536, 700, "chunk"), (16000, 1100, "head")] + ([(20000, 1000, "head"), (200_000, 100, "chunk")] if tier != "quick" else [])):
        for f in (flavors if tier != "quick" else [flavors[i % 3], flavors[(i + 1) % 3]]):
            cases.append({"flavor": f, "params": [{"dir": "many", "size": size, "count": count, "abandon": how}], "seed": seed + 250 + i})
    for i, (slack, size) in enumerate([(100_000, 1_000_000), (2048, 70_000), (16384 * 3 + 5, 300_000)] if tier != "quick" else [(100_000, 1_000_000)]):
        for f in flavors:
            cases.append({"flavor": f, "params": [{"dir": "held", "slack": slack, "size": size}], "seed": seed + 300 + i})
    cases.sort(key=lambda c: -max((2 ** 24 if p["dir"] == "held" else p["size"] * p.get("count", 1)) for p in c["params"]))
    return cases
