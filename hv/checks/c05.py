"""C05 — failed and cancelled requests give their pool slot back.

Every network operation x every documented fault kind, and every suspension point x
{scope-before, scope-after, native} cancellation, per connection type / request shape /
context; after each single-injection run, at quiescence: P1 repr(pool) counts nobody,
P2 no pooled connection is neither idle nor closed nor expired, P3 capacity probe through
the public API (max_connections fresh requests all obtain a connection)."""
from __future__ import annotations

from ..enum_core import run_enumeration, plan_cases, conn_state_name
from ..world import exc_name, documented
import httpcore  # noqa: E402

ID = "C05"
LEVEL = "fault_enumeration"
RULE = ("(connection type x request shape x context x flavour) x (every network op x every documented fault kind "
        "for that op) + (every suspension point x cancellation style); quick tier samples suspension points above "
        "30 and non-core type combinations (seeded); distinct+non-trivial = injection that actually fired, "
        "identified by (type, shape, context, flavour, injection label, trace phase at the injection)")
ASSUMPTIONS = ["injections only at real simnet operations / real yields of the caller's coroutine (Stepper)",
               "simulated back-end mirrors the checkpoint/close discipline of the anyio/trio/sync back-ends",
               "P2 is judged only at quiescence (all callers returned)"]
REQUIRED = ["runs", "faults_fired", "cancels_fired", "oracle_p1", "oracle_p2", "oracle_p3"]


def judge(res, facts, inject, label, base, cnt):
    out = []
    run = res["run"]
    if run.kind == "hang":
        out.append(("hang", {"outcomes": {k: repr(x) for k, x in res["outcomes"].items()}}))
    cnt["oracle_p1"] += 1
    c = facts["counts"]
    if c.get("req_active") or c.get("req_queued"):
        out.append(("request-still-counted", {"pool": c}))
    cnt["oracle_p2"] += 1
    for st in facts["conns"]:
        if not st["idle"] and not st["closed"] and not st["expired"]:
            out.append((f"stuck:{conn_state_name(st['info'])}", {"conn": st}))
            break
    cnt["oracle_reuse"] = cnt.get("oracle_reuse", 0) + 1
    if facts.get("reuse_probe", "ok") != "ok":
        out.append((f"pooled-connection-cannot-serve:{facts['reuse_probe']}", {"conns_before": facts["conns"],
                                                                               "conns_after": facts.get("reuse_probe_conns")}))
    # the connection a request used is busy, idle in the pool, or closed and gone: an open stream that no pooled
    # connection owns belongs to a connection that is none of these (it cannot be reused, expire or be evicted)
    cnt["oracle_used_connection"] = cnt.get("oracle_used_connection", 0) + 1
    if facts.get("orphans"):
        out.append(("connection-outside-the-pool-left-open", {"orphans": facts["orphans"][:3]}))
    cnt["oracle_p3"] += 1
    p = facts["probe"]
    if p["got"] < p["wanted"]:
        out.append(("capacity-lost", {"probe": p, "conns": facts["conns"]}))
    shared_h2 = bool(res["sc"].t.get("http2"))
    for name, o in res["outcomes"].items():
        if name == "victim":
            continue
        cnt["oracle_cocaller"] += 1
        if o.kind == "ok":
            continue
        if inject is not None and inject[0] in ("fault", "fault+cancel") and res.get("fault_call") == name:
            continue  # the injected fault hit this caller's own operation (its class is C15's business)
        if shared_h2 and o.kind == "exc" and documented(o.exc) and not isinstance(o.exc, httpcore.LocalProtocolError):
            # (LocalProtocolError is never shared fate: it tells a caller that its own, legal, request was illegal)
            # streams multiplexed on the connection the injection broke share its fate
            cnt["cocaller_shared_fate"] += 1
            continue
        out.append((f"cocaller-failed:{exc_name(o.exc) if o.kind == 'exc' else o.kind}", {"who": name, "outcome": repr(o)}))
    # one defect, one finding: report the primary symptom, keep the rest as detail
    if len(out) > 1:
        order = ["stuck", "request-still-counted", "capacity-lost", "hang", "pooled-connection-cannot-serve",
                 "connection-outside-the-pool-left-open", "cocaller-failed"]
        out.sort(key=lambda x: next((i for i, p in enumerate(order) if x[0].startswith(p)), 9))
        out = [(out[0][0], {"primary": out[0][1], "also": [x[0] for x in out[1:]]})]
    return out


def run_multi_evict(case):
    """The request whose arrival makes the pool close other connections (expired idle ones), cancelled at every suspension
    point - also inside those closes, which belong to its first assignment pass (enumeration shared with C06): afterwards
    the pool counts no request, holds no stuck connection, and a follow-up request gets a connection."""
    from .c06 import run_multi_evict as run
    res = run(case)
    cnt = {k: 0 for k in REQUIRED}
    cnt["runs"] = res["counters"]["runs"]
    cnt["cancels_fired"] = res["counters"]["cancels_fired"]
    viol = []
    for e in res.get("extras", []):
        cnt["oracle_p1"] += 1
        cnt["oracle_p3"] += 1
        c = e.get("counts", {})
        key = None
        if c.get("req_active") or c.get("req_queued"):
            key, what = f"evicting|request-still-counted|cancel:{e['style']}|pool.close-connections", f"pool counts {c}; connections {e.get('conns')}"
        elif e.get("followup") != "ok":
            key, what = f"evicting|capacity-lost|cancel:{e['style']}|pool.close-connections", f"follow-up request: {e.get('followup')}; connections {e.get('conns')}"
        if key and not any(x["key"] == key for x in viol):
            viol.append({"key": key, "what": what, "detail": {k: e[k] for k in ("n_idle", "style", "k", "counts", "conns", "followup")}})
    return {"viol": viol, "counters": cnt, "sigs": res["sigs"], "sample": None}


def run_case(case):
    if case.get("multi_evict"):
        return run_multi_evict(case)
    return run_enumeration(case, judge, {"oracle_p1": 0, "oracle_p2": 0, "oracle_p3": 0, "oracle_cocaller": 0, "cocaller_shared_fate": 0})


def plan(tier, seed):
    return plan_cases(tier, seed) + [{"multi_evict": True, "flavor": fl} for fl in ("asyncio", "trio")]
