"""C12 — HTTP/2 streams are isolated, bounded and cannot wedge each other.

One multiplexed connection, 1-12 concurrent requests, a scripted h2 server role that picks
the order of HEADERS/DATA/RST_STREAM/SETTINGS/PING across streams and cuts frames into
reads. Oracles: per-stream echo equality; independent open-stream accounting in the endpoint
(<= 1 before the client has read SETTINGS, then <= min(advertised, 100), most permissive of
old/new until ACK); no request fails because it waited for a slot; bounded progress."""
from __future__ import annotations

import random

import httpcore
from ..workload import Workload, gen_spec
from ..world import run_flavor, exc_name, documented
from .c01 import fingerprint

ID = "C12"
LEVEL = "exploration"
RULE = ("seeded single-connection HTTP/2 workloads: 1-12 concurrent requests; server script: MAX_CONCURRENT_STREAMS in "
        "{absent,1,2,3,100,200}, delayed first SETTINGS, responses held and released fifo/reverse/interleaved, the first "
        "request answered only after a later one (long-poll dependency), DATA "
        "frame size, RST_STREAM / SETTINGS(MAX_CONCURRENT_STREAMS up, down, below in-flight) / PING at the head or end "
        "of request n, frames cut into reads (whole, 7 bytes, random); callers read, stall, abandon after headers or "
        "after a partial body; distinct+non-trivial = new interleaving fingerprint with >= 2 streams open at once")
ASSUMPTIONS = ["open-stream accounting follows RFC 9113 5.1.2 from the server's view: a stream is closed once both sides "
               "ended it or either side reset it", "no faults or cancellations are injected here (C05/C07 do that)"]
REQUIRED = ["workloads", "streams", "oracle_stream_limit", "oracle_echo", "oracle_progress", "max_concurrent_seen",
            "settings_changes", "resets"]


def gen_h2_spec(r: random.Random, flavor: str) -> dict:
    n = r.randint(1, 12)
    mcs = r.choice([None, 1, 2, 3, 100, 200])
    script = {"data_chunk": r.choice([1, 100, 4000, 16384])}
    settings = {}
    if mcs is not None:
        settings["3"] = mcs
    script["settings"] = settings
    if r.random() < 0.3:
        script["settings_delay"] = r.choice([0.1, 1.0])
    if r.random() < 0.4:
        k = r.randint(1, min(n, (mcs or 100), 6))
        script["hold"] = k
        script["order"] = r.choice(["fifo", "reverse", "interleave"])
    actions = []
    n_act = r.choice([0, 0, 1, 2])
    kinds = []
    for _ in range(n_act):
        when = [r.choice(["head", "end"]), r.randrange(n)]
        do = r.choice(["rst", "settings-up", "settings-down", "settings-below", "ping", "ping-gate", "settings-down-twice", "settings-down-up"])
        kinds.append(do)
        if do == "settings-down-up":
            # a decrease that is taken back before the withdrawn slots have all been given up
            actions.append({"when": when, "do": "settings", "settings": {"3": r.choice([2, 10, 50])}})
            actions.append({"when": when, "do": "settings", "settings": {"3": r.choice([100, 100, 200])}})
            continue
        if do == "settings-down-twice":
            # two decreases in a row: the second arrives while slots withdrawn by the first are still in use
            first = r.choice([3, 4, 5])
            actions.append({"when": when, "do": "settings", "settings": {"3": first}})
            actions.append({"when": when, "do": "settings", "settings": {"3": r.choice([1, 2])}})
            continue
        if do == "rst":
            actions.append({"when": when, "do": "rst", "code": r.choice([8, 2, 7])})
        elif do in ("ping", "ping-gate"):
            actions.append({"when": when, "do": do})
        else:
            val = {"settings-up": r.choice([50, 100, 150]), "settings-down": r.choice([2, 3, 5]),
                   "settings-below": 1}[do]
            actions.append({"when": when, "do": "settings", "settings": {"3": val}})
    script["actions"] = actions
    reqs = r.choice([1, 1, 2])
    resp_delay = r.choice([0.0, 0.1])
    if "hold" not in script and n >= 2 and (mcs or 1) >= 2 and r.random() < 0.5:
        # a dependency between streams (long-poll): the FIRST request is answered only after a LATER request, sent by a
        # different caller, has been answered. No stream may keep another one from being read.
        script["defer"] = {"0": r.randrange(1, n)}
        reqs = 1
        resp_delay = 0.1
        kinds.append("defer")
        # the dependency needs two streams open at once: a server that also lowers its limit to one stream has wedged
        # itself, whatever the client does
        for act in actions:
            if act["do"] == "settings" and int(act["settings"]["3"]) < 2:
                act["settings"]["3"] = 2
    spec = gen_spec(r, flavor, proto="h2", proxy=None, n_origins=1, max_connections=1, n_callers=n, reqs=reqs, snipes=False,
                    behaviours=["read", "read", "read", "partial", "head-only", "post", "bad-head"], fault_ops=[], latency="zero",
                    think=r.choice([0.0, 0.0, 0.2]) if "defer" not in script else 0.0, pool_timeout=None, resp_delay=resp_delay,
                    max_keepalive=None, keepalive_expiry=None, h2_script=script, retries=0, connect_fail=0.0,
                    segmentation=r.choice(["all", "all", "random", "bytes"]))
    if "hold" in script or "defer" in script:
        # the server's script waits for particular requests to arrive: every caller must really send one
        spec["behaviours"] = [b for b in spec["behaviours"] if b != "bad-head"]
    spec["action_kinds"] = kinds
    if script["data_chunk"] < 100 or spec["segmentation"] == "bytes":
        spec["max_body"] = 500  # tiny frames / 7-byte reads: keep the number of operations per workload bounded
    spec["mcs"] = mcs
    if "hold" in script and any(k == "rst" for k in kinds):
        # a held batch that loses a member to RST_STREAM could never fill up: release on smaller batch
        script["hold"] = 1
    if "hold" in script:
        # hold needs that many requests to be open at once: never more than the client may open (it stays at one
        # stream when the server advertises no MAX_CONCURRENT_STREAMS at all) or than there are callers
        script["hold"] = max(1, min(script["hold"], n, mcs or 1, 1 if ("settings-below" in kinds or "settings-down-twice" in kinds or "settings-down-up" in kinds) else 100))
        if r.random() < 0.5 or "settings-down" in kinds or "settings-below" in kinds or "settings-down-twice" in kinds or "settings-down-up" in kinds:
            script["hold"] = 1
    return spec


async def run_chain(flavor, variant, cnt, v, sigs):
    """A dependency that runs through the client: an upload (B) has used up its 16-byte stream window and gets more
    credit only once a later request (C2) has arrived, which its caller sends only after an earlier response (C1) has
    been delivered to it. C1's response arrives in the same read as A's, while A holds the read lock, B waits for it
    next (for a WINDOW_UPDATE) and C1's own caller waits behind B. Whoever reads next must not keep a caller whose
    response is already there from picking it up."""
    import anyio
    from .. import simnet, endpoints
    from ..endpoints import Resp
    from ..world import mk_pool, API, guarded
    net = simnet.Net()
    net.log_events = False
    d_a, d_c1 = variant["d_a"], variant["d_c1"]

    def responder(req, origin):
        tok = req.token or b"-"
        delay = {b"A": d_a, b"C1": d_c1}.get(tok, 0.0)
        return Resp(200, b"OK", [(b"X-Echo", tok)], b"r" * 200, delay=delay)
    origin = endpoints.Origin(net, "o.test", 443, tls=True, alpn=["h2"], responder=responder,
                              h2_script={"settings": {3: 100, 4: 16}, "data_chunk": 4000, "win": "dep:5:2"})
    pool = mk_pool(flavor, net, http2=True, max_connections=1)
    api = API(flavor, pool, net)
    res = {}

    async def call(tok, method="GET", content=None):
        r_ = await api.request(method, f"https://o.test/{tok}", headers=[("X-Token", tok)], content=content)
        res[tok] = (r_.status, len(r_.content))

    async def scen():
        simnet.CALL.set("W")
        await call("W")

        async def a():
            simnet.CALL.set("A")
            await call("A")

        async def b():
            simnet.CALL.set("B")
            await anyio.sleep(0.1)
            await call("B", "POST", b"u" * 64)

        async def c():
            simnet.CALL.set("C")
            await anyio.sleep(0.2)
            await call("C1")
            await call("C2")
        async with anyio.create_task_group() as tg:
            tg.start_soon(a)
            tg.start_soon(b)
            tg.start_soon(c)
        return True
    out = await guarded(flavor, scen)
    cnt["workloads"] += 1
    cnt["oracle_progress"] += 1
    cnt["chain_runs"] = cnt.get("chain_runs", 0) + 1
    srv = [c_.h2 for c_ in origin.conns if c_.h2 is not None]
    for s_ in srv:
        cnt["streams"] += len(s_.reqs)
        cnt["oracle_stream_limit"] += s_.stream_limit_checks
        cnt["frames_seen"] += s_.ledger.frames
        cnt["max_concurrent_seen"] = max(cnt["max_concurrent_seen"], s_.ledger.max_open_seen)
        for viol_ in s_.ledger.violations:
            v(f"ledger:{viol_['kind']}:chain", f"{viol_}", {"variant": variant})
    ctx = {"flavor": flavor, "variant": variant, "completed": sorted(res)}
    sigs.add(f"chain|{flavor}|{d_a}|{d_c1}")
    if out.kind == "hang":
        v("wedged:chain", f"callers blocked for ever; completed {sorted(res)} - a caller whose response had arrived was kept "
          f"waiting behind a reader that waits for bytes the server has no reason to send", ctx)
    elif out.kind != "ok" or len(res) != 5 or any(x != (200, 200) for x in res.values()):
        v("chain:request-failed", f"{out!r} {res}", ctx)
    else:
        cnt["requests_ok"] += 5
        cnt["oracle_echo"] += 5
    await guarded(flavor, api.close_pool)


def run_case(case):
    viol = []
    cnt = {k: 0 for k in ["workloads", "streams", "oracle_stream_limit", "oracle_echo", "oracle_progress",
                          "max_concurrent_seen", "settings_changes", "resets", "requests_ok", "requests_reset",
                          "frames_seen"]}
    sigs = set()
    sample = {}

    def v(key, what, detail):
        if not any(x["key"] == key for x in viol):
            viol.append({"key": key, "what": what, "detail": detail})

    async def main():
        for variant in case.get("chain", []):
            await run_chain(case["flavor"], variant, cnt, v, sigs)
        for spec in case["specs"]:
            wl = Workload(spec)
            out = await wl.run()
            cnt["workloads"] += 1
            kinds = spec.get("action_kinds", [])
            tag = "+".join(sorted(set(kinds))) or "none"
            srv = [c.h2 for o in wl.origins for c in o.conns if c.h2 is not None]
            max_open = max([s.ledger.max_open_seen for s in srv], default=0)
            cnt["max_concurrent_seen"] = max(cnt["max_concurrent_seen"], max_open)
            for s in srv:
                cnt["oracle_stream_limit"] += s.stream_limit_checks
                cnt["frames_seen"] += s.ledger.frames
                cnt["streams"] += len(s.reqs)
                for viol_ in s.ledger.violations:
                    v(f"ledger:{viol_['kind']}:{tag}", f"{viol_}", {"spec": spec})
                if s.protocol_error is not None:
                    v(f"server-role-rejected-client-frames:{type(s.protocol_error).__name__}:{tag}", str(s.protocol_error), {"spec": spec})
            cnt["settings_changes"] += sum(1 for k in kinds if k.startswith("settings"))
            cnt["resets"] += kinds.count("rst")
            cnt["oracle_progress"] += 1
            if out.kind == "hang":
                unfinished = [r["token"] for r in wl.records if "end" not in r]
                v(f"wedged:{tag}", f"callers blocked for ever; unfinished {unfinished[:8]}; MAX_CONCURRENT_STREAMS={spec.get('mcs')}",
                  {"spec": spec, "unfinished": unfinished[:12]})
            n, bad = wl.echo_violations()
            cnt["oracle_echo"] += n
            for kind, rec, msg in bad:
                v("crosstalk:" + kind, msg, {"spec": spec, "token": rec["token"]})
            reset_tokens = set()
            for o in wl.origins:
                for req in o.requests:
                    if getattr(req, "was_reset", False) and req.token:
                        reset_tokens.add(req.token.decode())
            for rec in wl.records:
                if rec.get("end") == "ok":
                    cnt["requests_ok"] += 1
                elif rec.get("end") == "exc":
                    if rec["beh"] == "bad-head" and isinstance(rec["exc"], httpcore.LocalProtocolError):
                        cnt["requests_rejected_locally"] = cnt.get("requests_rejected_locally", 0) + 1
                    elif rec["token"] in reset_tokens:
                        cnt["requests_reset"] += 1
                        if not documented(rec["exc"]):
                            v("reset-stream-undocumented-exception:" + exc_name(rec["exc"]), repr(rec["exc"]), {"spec": spec})
                    else:
                        v(f"request-failed-without-being-reset:{exc_name(rec['exc'])}:{tag}",
                          f"{rec['token']} ({rec['beh']}) failed with {rec['exc']!r} although the server never reset it",
                          {"spec": spec, "token": rec["token"]})
            if out.kind != "hang":
                # everything has been read or given up: no live connection may still owe connection-level credit
                from ..world import h2_credit_leaks
                cnt["oracle_credit_conserved"] = cnt.get("oracle_credit_conserved", 0) + 1
                for leak in h2_credit_leaks(wl.pool):
                    v("connection-credit-leaked", f"all responses are closed and the connection still owes {leak['owed']} bytes of "
                      f"connection-level flow-control credit that it has not noted for return ({leak})", {"spec": spec})
            if wl.net.busy_events:
                v("concurrent-io-on-one-stream", f"{wl.net.busy_events} overlapping read/write calls on one network stream",
                  {"spec": spec})
            if max_open >= 2:
                sigs.add(fingerprint(wl.net))
                if not sample:
                    sample.update({"spec": spec, "max_open_streams_seen_by_server": max_open,
                                   "frames_by_type": srv[0].ledger.by_type if srv else None})
            try:
                await wl.api.close_pool()
            except Exception:  # noqa
                pass

    run_flavor(case["flavor"], None, main, seed=case["seed"])
    return {"viol": viol, "counters": cnt, "sigs": sorted(sigs), "sample": sample or None}


def finish(counters, results):
    return {"max_concurrent_streams_seen": max([r.get("counters", {}).get("max_concurrent_seen", 0) for r in results] or [0])}


def plan(tier, seed):
    r = random.Random(seed * 401 + 12)
    n_cases, per = (64, 24) if tier == "quick" else (640, 60)
    cases = []
    for i in range(n_cases):
        flavor = ["asyncio", "trio"][i % 2]
        cases.append({"flavor": flavor, "specs": [gen_h2_spec(r, flavor) for _ in range(per)], "seed": r.randrange(1 << 30)})
    chain = [{"d_a": a_, "d_c1": c_} for a_, c_ in ((1.0, 0.8), (1.0, 0.5), (1.0, 1.0), (0.5, 0.8), (2.0, 1.8), (1.0, 0.79))]
    for flavor in ("asyncio", "trio"):
        cases.append({"flavor": flavor, "specs": [], "chain": chain, "seed": 7})
    return cases
