"""C01 — each response belongs to its own request (no cross-talk, no desync).

Concurrent echo workload on the real pool: (a) client-boundary echo oracle — what a caller
got equals what the origin recorded for that caller's token; (b) wire oracle inside the
HTTP/1.1 endpoint — a new request starts on a transport only after the previous exchange
was complete in both directions and was not close-delimited / Connection: close / HTTP/1.0;
(c) HTTP/2 per-stream echo + frame-ledger anomalies."""
from __future__ import annotations

import random

from ..workload import Workload, gen_spec
from ..world import run_flavor, exc_name

ID = "C01"
LEVEL = "exploration"
RULE = ("seeded concurrent workloads: 2-6 callers x 2-5 requests over 1-3 origins, max_connections 1-3, HTTP/1.1 / "
        "TLS / HTTP/2, direct / forward / tunnel / SOCKS5; caller behaviours {read all, close after headers, close "
        "after partial body, cancelled at a random suspension point (scope-before/after, native), read timeout, POST "
        "streamed}; server behaviours {keep-alive, chunked, Connection: close, HTTP/1.0, close-delimited, early "
        "response}; seeded op latencies and injected faults; distinct+non-trivial = workload whose interleaving "
        "fingerprint (sequence of (caller, op kind, transport)) is new and which reused at least one connection; in half of "
        "the workloads requests carry their own Host header (virtual hosts on one URL origin, so on the same pooled "
        "connections) and the response must come from the virtual host that was asked")
ASSUMPTIONS = ["origin endpoints send exactly one well-framed final response per request and record it per token",
               "asyncio ready-queue order is not perturbed (FIFO by contract); diversity comes from seeded latencies, "
               "think times and, on trio, the seeded scheduler shuffle"]
REQUIRED = ["workloads", "responses_checked", "oracle_wire_requests", "reused_connections", "interleavings"]


def fingerprint(net):
    import hashlib
    h = hashlib.sha1()
    for idx, kind, tr, call in net.ops:
        h.update(f"{call}|{kind}|{tr};".encode())
    return h.hexdigest()[:16]


async def reader_cancel_sweep(flavor, seg, cnt, v, sigs, with_settings=False):
    """On a multiplexed HTTP/2 connection whichever caller holds the read lock reads for all streams. Caller A waits
    for a late response (so it keeps reading), caller C downloads a body whose frames arrive in several reads, and A is
    cancelled at its k-th suspension point, for every k and every cancellation style. C must get exactly its own body
    - or a documented error if the cancellation cost the connection - and must not hang."""
    import anyio
    from .. import simnet, endpoints, runners
    from ..endpoints import Resp
    from ..world import mk_pool, API, guarded, documented, exc_name
    from ..scenarios import styles_for
    body_c = b"".join(b"%05d;" % i for i in range(1500))  # 9000 bytes; every position is recognisable

    async def one(style, k):
        net = simnet.Net()
        net.log_events = False
        if seg != "all":
            net.segmentation = simnet.Segmentation("fixed", seg)

        def responder(req, origin):
            tok = req.token or b"-"
            if tok == b"A":
                return Resp(200, b"OK", [(b"X-Echo", tok)], b"a" * 100, delay=50.0)
            return Resp(200, b"OK", [(b"X-Echo", tok)], body_c if tok == b"C" else b"w", delay=0.2 if tok == b"C" else 0.0)

        script = {"settings": {3: 100}, "data_chunk": 1400}
        if with_settings:
            # a SETTINGS frame reaches the client in the same read as the first frames of C's response, and A's trace callback
            # awaits: A can be cancelled in the middle of handling the settings change, with C's events already read
            script["actions"] = [{"when": ("head", 2), "do": "settings", "settings": {3: 50}, "delay": 0.2}]
        endpoints.Origin(net, "o.test", 443, tls=True, alpn=["h2"], responder=responder, h2_script=script)

        async def a_trace(name, info):
            await anyio.lowlevel.checkpoint()
        pool = mk_pool(flavor, net, http2=True, max_connections=1)
        api = API(flavor, pool, net)
        res = {}

        async def scen():
            await api.request("GET", "https://o.test/warm", headers=[("X-Token", "W")])

            async def a_caller():
                simnet.CALL.set("A")
                res["A"], res["K"] = await runners.run_with_cancel(
                    flavor, lambda: api.request("GET", "https://o.test/a", headers=[("X-Token", "A")],
                                                extensions={"trace": a_trace} if with_settings else {}), style, k)

            async def c_caller():
                simnet.CALL.set("C")
                await anyio.sleep(0.05)
                try:
                    r_ = await api.request("GET", "https://o.test/c", headers=[("X-Token", "C")])
                    res["C"] = runners.Outcome("ok", (r_.status, r_.content))
                except Exception as exc:  # noqa
                    res["C"] = runners.Outcome("exc", exc=exc)
            async with anyio.create_task_group() as tg:
                tg.start_soon(a_caller)
                tg.start_soon(c_caller)
            return True

        out = await guarded(flavor, scen)
        await guarded(flavor, api.close_pool)
        return out, res, len(net.transports)

    out, res, _ = await one(None, None)
    K = res.get("K", 0)
    if out.kind != "ok" or res.get("C") is None or res["C"].kind != "ok" or res["C"].value != (200, body_c):
        v("reader-cancel:baseline-failed", f"{out!r} {res.get('C')!r}"[:300], {"flavor": flavor, "seg": seg})
        return
    for style in styles_for(flavor):
        for k in range(1, K + 1):
            out, res, ntr = await one(style, k)
            cnt["reader_cancel_runs"] += 1
            ctx = {"flavor": flavor, "seg": seg, "style": style, "k": k, "of": K, "settings-in-the-read": with_settings}
            c = res.get("C")
            if out.kind == "hang" or c is None:
                v("reader-cancel:other-stream-never-completes", f"A cancelled ({style}) at suspension point {k}/{K}: the other "
                  f"caller's download never ends ({out!r})", ctx)
            elif c.kind == "ok":
                cnt["reader_cancel_other_ok"] += 1
                if c.value != (200, body_c):
                    got = c.value[1]
                    v("crosstalk:hole-in-body-after-sibling-cancelled", f"A cancelled ({style}) at suspension point {k}/{K}: the other "
                      f"caller got {len(got)} of {len(body_c)} body bytes without an error (first difference at "
                      f"{next((i for i in range(min(len(got), len(body_c))) if got[i] != body_c[i]), min(len(got), len(body_c)))})", ctx)
            elif c.kind == "exc":
                cnt["reader_cancel_other_failed"] += 1
                if not documented(c.exc):
                    v("reader-cancel:undocumented:" + exc_name(c.exc), repr(c.exc), ctx)
            sigs.add(f"reader-cancel|{flavor}|{seg}|{style}|{k}|{with_settings}")


async def writer_cancel_sweep(flavor, cnt, v, sigs):
    """On an HTTP/2 connection frames are written under one lock, and the header block of a request is HPACK-encoded
    before it is written. Caller U uploads a large body over a slow link (it holds the write lock most of the time), caller
    V - a request for another virtual host - is cancelled at its k-th suspension point, for every k and every style; then
    three more requests for three virtual hosts use whatever connection the pool gives them. Each must be answered by the
    host it named (or fail with a documented error): a header block that was encoded and then lost would leave the
    encoder's table ahead of the server's, and later requests would be decoded as other requests."""
    import anyio
    from .. import simnet, endpoints, runners
    from ..endpoints import Resp
    from ..world import mk_pool, API, guarded, documented, exc_name
    from ..scenarios import styles_for

    async def one(style, k):
        net = simnet.Net()
        net.log_events = False
        net.latency = lambda kind, idx: 0.02 if kind == "write" else 0.0

        def responder(req, origin):
            seen = [x for n, x in getattr(req, "h2_headers", None) or [] if n == b":authority"]
            return Resp(200, b"OK", [(b"X-Echo", req.token or b"-"), (b"X-Host-Seen", b",".join(seen))], b"ok")

        origin = endpoints.Origin(net, "o.test", 443, tls=True, alpn=["h2"], responder=responder, h2_script={"settings": {3: 100}})
        pool = mk_pool(flavor, net, http2=True, max_connections=2)
        api = API(flavor, pool, net)
        res = {"origin": origin}

        async def get(tok, host, user):
            r_ = await api.request("GET", "https://o.test/", headers=[("Host", host), ("X-Token", tok), ("X-User", user)])
            hs = {n.lower(): x for n, x in r_.headers}
            return hs.get(b"x-host-seen", b"").decode(), hs.get(b"x-echo", b"").decode()

        async def scen():
            await get("W", "a.example", "warm")

            async def u_caller():
                simnet.CALL.set("U")
                try:
                    # (every request adds the same three new fields, in the same order, to the HPACK table - authority,
                    # token, user - so that a lost header block shifts later references onto entries of the same kind: a
                    # request is then decoded as a *valid* other request instead of failing to decode)
                    await api.request("POST", "https://o.test/up", headers=[("Host", "c.example"), ("X-Token", "U"), ("X-User", "u")],
                                      content=api.body([b"u" * 16000] * 6))
                    res["U"] = "ok"
                except Exception as exc:  # noqa
                    res["U"] = exc

            async def v_caller():
                simnet.CALL.set("V")
                await anyio.sleep(0.01)
                res["V"], res["K"] = await runners.run_with_cancel(flavor, lambda: get("V", "b.example", "victim"), style, k)
            async with anyio.create_task_group() as tg:
                tg.start_soon(u_caller)
                tg.start_soon(v_caller)
            later = []
            for tok, host, user in (("L1", "b.example", "bob"), ("L2", "c.example", "carol"), ("L3", "a.example", "alice")):
                try:
                    later.append((tok, host, await get(tok, host, user)))
                except Exception as exc:  # noqa
                    later.append((tok, host, exc))
            res["later"] = later
            return True

        out = await guarded(flavor, scen)
        await guarded(flavor, api.close_pool)
        return out, res

    out, res = await one(None, None)
    K = res.get("K", 0)
    if out.kind != "ok" or any(isinstance(x[2], Exception) or x[2] != (x[1], x[0]) for x in res.get("later", [])) or not K:
        v("writer-cancel:baseline-failed", f"{out!r} {res.get('later')!r}"[:400], {"flavor": flavor})
        return
    for style in styles_for(flavor):
        for k in range(1, K + 1):
            out, res = await one(style, k)
            cnt["writer_cancel_runs"] = cnt.get("writer_cancel_runs", 0) + 1
            ctx = {"flavor": flavor, "style": style, "k": k, "of": K}
            sigs.add(f"writer-cancel|{flavor}|{style}|{k}")
            if out.kind == "hang":
                v("writer-cancel:hang", f"V cancelled ({style}) at suspension point {k}/{K}: {out!r}", ctx)
                continue
            # whatever was cancelled, what the client did put on the wire must be decodable: the server role of the h2 package
            # rejecting a header block means the client's HPACK state has run ahead of what it sent
            for oc in res["origin"].conns:
                if oc.h2 is not None and oc.h2.protocol_error is not None:
                    v("desync:server-cannot-decode-client-frames-after-cancelled-write", f"V cancelled ({style}) at suspension point "
                      f"{k}/{K}: the server rejected the client's frames: {oc.h2.protocol_error!r}", ctx)
            for tok, host, got in res.get("later", []):
                if isinstance(got, Exception):
                    cnt["writer_cancel_later_failed"] = cnt.get("writer_cancel_later_failed", 0) + 1
                    if not documented(got):
                        v("writer-cancel:undocumented:" + exc_name(got), repr(got), ctx)
                else:
                    cnt["writer_cancel_later_ok"] = cnt.get("writer_cancel_later_ok", 0) + 1
                    if got != (host, tok):
                        v("crosstalk:answered-as-another-request-after-cancelled-write", f"V cancelled ({style}) at suspension point "
                          f"{k}/{K}: the later request {tok} for {host} was answered as {got!r}", ctx)


async def early_answer_sweep(flavor, ctype, cnt, v, sigs):
    """The server answers a POST as soon as it has the head - a complete, keep-alive response - and one write of the
    request fails without the connection dying (a peer that stopped listening): for every write of the request in turn.
    The exchange did not finish in the request direction, so whatever the POST's outcome the connection must not carry
    the follow-up request; the follow-up gets its own answer."""
    from . import c14
    from ..scenarios import Sc
    from ..world import guarded
    from .. import simnet

    async def one(fault_at, shape):
        sc = Sc(ctype, flavor, max_connections=2, resp_delay=0.0)
        sc.net.op_budget = 3000
        for o in sc.origins:
            o.early = True
        if fault_at is not None:
            sc.net.faults[fault_at] = "WriteErrorSoft"
        simnet.CALL.set("p")
        out1 = await guarded(flavor, lambda: c14.one_call(sc, shape, "p"))
        ops_p = [(i, k) for i, k, tr, call in sc.net.ops if call == "p"]
        simnet.CALL.set("f")
        out2 = await guarded(flavor, lambda: c14.one_call(sc, "get", "f"))
        heads = c14.heads_by_token(sc)
        await guarded(flavor, sc.api.close_pool)
        return sc, out1, out2, ops_p, heads

    for shape in ("post-bytes", "post-iter"):
        sc, out1, out2, ops_p, heads = await one(None, shape)
        if out1.kind != "ok" or out2.kind != "ok":
            v("early-answer:baseline-failed", f"{out1!r} {out2!r}", {"flavor": flavor, "ctype": ctype, "shape": shape})
            continue
        for idx in [i for i, k in ops_p if k == "write"]:
            sc, out1, out2, ops_p_, heads = await one(idx, shape)
            cnt["early_answer_runs"] += 1
            cnt["early_answer_faults_fired"] += 1 if sc.net.fault_fired else 0
            ctx = {"flavor": flavor, "ctype": ctype, "shape": shape, "write_fault_at_op": idx, "post": repr(out1), "followup": repr(out2)}
            sigs.add(f"early-answer|{flavor}|{ctype}|{shape}|{idx}|{out1.kind}")
            p_reqs = heads.get("p", [])
            f_reqs = heads.get("f", [])
            unfinished = [r for r in p_reqs if not r.complete]
            if out2.kind != "ok":
                v("desync:followup-after-unfinished-exchange-failed", f"the follow-up request ended {out2!r} (the POST, whose write at op "
                  f"{idx} failed, ended {out1!r}; its request was {'not ' if unfinished else ''}complete at the server)", ctx)
            elif unfinished and f_reqs and any(r.tr == unfinished[0].tr for r in f_reqs):
                v("desync:connection-reused-after-unfinished-request", f"transport {unfinished[0].tr} carried the follow-up although "
                  f"the POST on it never finished", ctx)
            elif not f_reqs:
                v("desync:followup-never-reached-the-origin", f"{out2!r}", ctx)


def run_case(case):
    viol = []
    cnt = {"workloads": 0, "responses_checked": 0, "oracle_wire_requests": 0, "reused_connections": 0,
           "interleavings": 0, "requests": 0, "ended_ok": 0, "ended_exc": 0, "ended_cancelled": 0, "hangs": 0,
           "h2_streams": 0, "faults_fired": 0, "transports": 0}
    sigs = set()
    sample = {}

    def v(key, what, detail):
        if not any(x["key"] == key for x in viol):
            viol.append({"key": key, "what": what, "detail": detail})

    async def main():
        if case.get("kind") == "early-answer":
            for key in ("early_answer_runs", "early_answer_faults_fired"):
                cnt[key] = 0
            await early_answer_sweep(case["flavor"], case["ctype"], cnt, v, sigs)
            return
        if case.get("kind") == "writer-cancel":
            await writer_cancel_sweep(case["flavor"], cnt, v, sigs)
            return
        if case.get("kind") == "reader-cancel":
            for key in ("reader_cancel_runs", "reader_cancel_other_ok", "reader_cancel_other_failed"):
                cnt[key] = 0
            await reader_cancel_sweep(case["flavor"], case["seg"], cnt, v, sigs, with_settings=bool(case.get("settings")))
            return
        for spec in case["specs"]:
            wl = Workload(spec)
            out = await wl.run()
            cnt["workloads"] += 1
            cnt["requests"] += len(wl.records)
            cnt["faults_fired"] += len(wl.net.fault_fired)
            cnt["transports"] += len(wl.net.transports)
            for rec in wl.records:
                cnt["ended_" + rec.get("end", "cancelled")] = cnt.get("ended_" + rec.get("end", "cancelled"), 0) + 1
            if out.kind == "hang":
                cnt["hangs"] += 1  # judged by C07, not here
            n, bad = wl.echo_violations()
            cnt["responses_checked"] += n
            if spec.get("vhosts"):
                cnt["vhost_responses_checked"] = cnt.get("vhost_responses_checked", 0) + sum(
                    1 for rec in wl.records if rec.get("got") is not None and rec["host_wanted"].startswith("v"))
            for kind, rec, msg in bad:
                v("crosstalk:" + kind, msg, {"spec": spec, "token": rec["token"], "behaviour": rec["beh"]})
            reused = 0
            for o in wl.origins:
                cnt["oracle_wire_requests"] += len(o.requests)
                reused += sum(1 for r in o.requests if r.ordinal > 0)
                cnt["h2_streams"] += sum(1 for r in o.requests if r.proto == "h2")
            if wl.proxy is not None and hasattr(wl.proxy, "forwards"):
                reused += sum(1 for r in wl.proxy.forwards if getattr(r, "proxy_ordinal", 0) > 0)
            cnt["reused_connections"] += reused
            for name, a in wl.wire_anomalies():
                k = a["kind"]
                # HTTP/2 frames carry their stream id, so (c) is decided by the echo oracle alone; frame-ledger
                # anomalies after a cancelled/faulted write are a shared-fate matter (C05/C12), not cross-talk.
                if k.startswith("pipelined") or k == "request-after-close":
                    v("desync:" + k, f"{name}: {a}", {"spec": spec})
            fp = fingerprint(wl.net)
            if reused:
                sigs.add(fp)
            if not sample and reused:
                sample.update({"spec": spec, "records": [{"token": r["token"], "beh": r["beh"], "end": r.get("end")}
                                                         for r in wl.records[:12]], "fingerprint": fp})
            try:
                await wl.api.close_pool()
            except Exception:  # noqa
                pass
        cnt["interleavings"] = len(sigs)

    run_flavor(case["flavor"], None, main, seed=case["seed"])
    return {"viol": viol, "counters": cnt, "sigs": sorted(sigs), "sample": sample or None}


def plan(tier, seed):
    r = random.Random(seed * 101 + 1)
    n_cases, per = (64, 30) if tier == "quick" else (640, 80)
    cases = []
    for i in range(n_cases):
        flavor = ["asyncio", "trio"][i % 2]
        specs = [gen_spec(r, flavor) for _ in range(per)]
        for sp in specs:
            # half of the workloads address virtual hosts: same URL origin (so the same pooled connections), a Host header
            # of their own per request; the origin reports the Host / :authority it was asked for
            sp["vhosts"] = sp["seed"] % 2 == 0
            # a third of the HTTP/1.1 workloads talk to a server that now and then sends a second, unsolicited response
            # right behind a complete one
            sp["unsolicited"] = sp["seed"] % 3 == 0
        cases.append({"flavor": flavor, "specs": specs, "seed": r.randrange(1 << 30)})
    for flavor in ("asyncio", "trio", "sync"):
        for ctype in (("h1", "fwd") if tier == "quick" else ("h1", "h1tls", "fwd", "tun", "socks")):
            cases.append({"kind": "early-answer", "flavor": flavor, "ctype": ctype, "seed": 1})
    for flavor in ("asyncio", "trio"):
        cases.append({"kind": "writer-cancel", "flavor": flavor, "seed": 1})
    for flavor in ("asyncio", "trio"):
        for seg in ((300, 900, "all") if tier == "quick" else (300, 900, 1400, 5000, "all")):
            cases.append({"kind": "reader-cancel", "flavor": flavor, "seg": seg, "seed": 1})
        for seg in (("all",) if tier == "quick" else (900, "all")):
            cases.append({"kind": "reader-cancel", "flavor": flavor, "seg": seg, "settings": True, "seed": 1})
    return cases
