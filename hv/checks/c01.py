"""C01 — each response belongs to its own request (no cross-talk, no desync).

Concurrent echo workload on the real pool: (a) client-boundary echo oracle — what a caller
got equals what the origin recorded for that caller's token; (b) wire oracle inside the
HTTP/1.1 endpoint — a new request starts on a transport only after the previous exchange
was complete in both directions and was not close-delimited / Connection: close / HTTP/1.0;
(c) HTTP/2 per-stream echo + frame-ledger anomalies."""
from __future__ import annotations

import random

from ..workload import Workload, gen_spec
from ..world import run_flavor, exc_name

ID = "C01"
LEVEL = "exploration"
RULE = ("seeded concurrent workloads: 2-6 callers x 2-5 requests over 1-3 origins, max_connections 1-3, HTTP/1.1 / "
        "TLS / HTTP/2, direct / forward / tunnel / SOCKS5; caller behaviours {read all, close after headers, close "
        "after partial body, cancelled at a random suspension point (scope-before/after, native), read timeout, POST "
        "streamed}; server behaviours {keep-alive, chunked, Connection: close, HTTP/1.0, close-delimited, early "
        "response}; seeded op latencies and injected faults; distinct+non-trivial = workload whose interleaving "
        "fingerprint (sequence of (caller, op kind, transport)) is new and which reused at least one connection; in half of "
        "the workloads requests carry their own Host header (virtual hosts on one URL origin, so on the same pooled "
        "connections) and the response must come from the virtual host that was asked")
ASSUMPTIONS = ["origin endpoints send exactly one well-framed final response per request and record it per token",
               "asyncio ready-queue order is not perturbed (FIFO by contract); diversity comes from seeded latencies, "
               "think times and, on trio, the seeded scheduler shuffle"]
REQUIRED = ["workloads", "responses_checked", "oracle_wire_requests", "reused_connections", "interleavings"]


def fingerprint(net):
    import hashlib
    h = hashlib.sha1()
    for idx, kind, tr, call in net.ops:
        h.update(f"{call}|{kind}|{tr};".encode())
    return h.hexdigest()[:16]


def run_case(case):
    viol = []
    cnt = {"workloads": 0, "responses_checked": 0, "oracle_wire_requests": 0, "reused_connections": 0,
           "interleavings": 0, "requests": 0, "ended_ok": 0, "ended_exc": 0, "ended_cancelled": 0, "hangs": 0,
           "h2_streams": 0, "faults_fired": 0, "transports": 0}
    sigs = set()
    sample = {}

    def v(key, what, detail):
        if not any(x["key"] == key for x in viol):
            viol.append({"key": key, "what": what, "detail": detail})

    async def main():
        for spec in case["specs"]:
            wl = Workload(spec)
            out = await wl.run()
            cnt["workloads"] += 1
            cnt["requests"] += len(wl.records)
            cnt["faults_fired"] += len(wl.net.fault_fired)
            cnt["transports"] += len(wl.net.transports)
            for rec in wl.records:
                cnt["ended_" + rec.get("end", "cancelled")] = cnt.get("ended_" + rec.get("end", "cancelled"), 0) + 1
            if out.kind == "hang":
                cnt["hangs"] += 1  # judged by C07, not here
            n, bad = wl.echo_violations()
            cnt["responses_checked"] += n
            if spec.get("vhosts"):
                cnt["vhost_responses_checked"] = cnt.get("vhost_responses_checked", 0) + sum(
                    1 for rec in wl.records if rec.get("got") is not None and rec["host_wanted"].startswith("v"))
            for kind, rec, msg in bad:
                v("crosstalk:" + kind, msg, {"spec": spec, "token": rec["token"], "behaviour": rec["beh"]})
            reused = 0
            for o in wl.origins:
                cnt["oracle_wire_requests"] += len(o.requests)
                reused += sum(1 for r in o.requests if r.ordinal > 0)
                cnt["h2_streams"] += sum(1 for r in o.requests if r.proto == "h2")
            if wl.proxy is not None and hasattr(wl.proxy, "forwards"):
                reused += sum(1 for r in wl.proxy.forwards if getattr(r, "proxy_ordinal", 0) > 0)
            cnt["reused_connections"] += reused
            for name, a in wl.wire_anomalies():
                k = a["kind"]
                # HTTP/2 frames carry their stream id, so (c) is decided by the echo oracle alone; frame-ledger
                # anomalies after a cancelled/faulted write are a shared-fate matter (C05/C12), not cross-talk.
                if k.startswith("pipelined") or k == "request-after-close":
                    v("desync:" + k, f"{name}: {a}", {"spec": spec})
            fp = fingerprint(wl.net)
            if reused:
                sigs.add(fp)
            if not sample and reused:
                sample.update({"spec": spec, "records": [{"token": r["token"], "beh": r["beh"], "end": r.get("end")}
                                                         for r in wl.records[:12]], "fingerprint": fp})
            try:
                await wl.api.close_pool()
            except Exception:  # noqa
                pass
        cnt["interleavings"] = len(sigs)

    run_flavor(case["flavor"], None, main, seed=case["seed"])
    return {"viol": viol, "counters": cnt, "sigs": sorted(sigs), "sample": sample or None}


def plan(tier, seed):
    r = random.Random(seed * 101 + 1)
    n_cases, per = (64, 30) if tier == "quick" else (640, 80)
    cases = []
    for i in range(n_cases):
        flavor = ["asyncio", "trio"][i % 2]
        specs = [gen_spec(r, flavor) for _ in range(per)]
        for sp in specs:
            # half of the workloads address virtual hosts: same URL origin (so the same pooled connections), a Host header
            # of their own per request; the origin reports the Host / :authority it was asked for
            sp["vhosts"] = sp["seed"] % 2 == 0
        cases.append({"flavor": flavor, "specs": specs, "seed": r.randrange(1 << 30)})
    return cases
