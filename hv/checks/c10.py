"""C10 — requests travel only on connections made for their origin, TLS per scheme.

Read directly off the ledger: the logical address (connect_tcp target / CONNECT target /
SOCKS target / absolute URL) each request reached, whether the origin hop was TLS-wrapped,
the SNI and ALPN offer of that handshake, whether HTTP/2 was spoken without being
negotiated or forced, and whether one transport ever carried requests of two origins."""
from __future__ import annotations

import itertools
import random

from .. import REPO  # noqa: F401
import httpcore

from .. import simnet, endpoints
from ..simnet import CALL
from ..world import mk_pool, API, run_flavor, guarded, exc_name

ID = "C10"
LEVEL = "exploration"
RULE = ("full matrix scheme {http, https, ws, wss} x port {implicit, explicit default, other} x proxy {none, http, https, "
        "socks5, socks5h} x (http1, http2) in {(T,F),(T,T),(F,T)} x server ALPN {none, http/1.1, h2} x sni_hostname "
        "{unset, set} x flavour (rotating), each followed by a reuse request; plus seeded sequences of 12 requests over "
        "near-miss origins (http://a:80, ws://a:80, https://a:443, wss://a:443, http://a:8080, https://a:8443, "
        "http://b:80, https://b:443) per proxy kind, 40% of them with ONE ssl.SSLContext object shared by the origin and proxy "
        "handshakes and half of those with a second pool (opposite http2 switch) sharing it too; distinct+non-trivial = configuration tuple / sequence whose "
        "request reached an endpoint")
ASSUMPTIONS = ["endpoints accept plaintext or TLS on any port and record which they got; the verdict is the oracle's",
               "ALPN offer is read from the recording ssl.SSLContext the pool was given at handshake time"]
REQUIRED = ["configs", "requests_delivered", "oracle_address", "oracle_tls", "oracle_sni", "oracle_alpn", "oracle_h2",
            "oracle_transport_origin", "sequences"]
EXHAUSTIVE = False

PROXIES = [None, "http", "https", "socks5", "socks5h"]
HOSTS = ["a.test", "2001:db8::7", "10.9.8.7", "a.test"]


def build(flavor, proxy, http1, http2, server_alpn, hosts_ports, shared_ctx=None, net=None, origins=None, px=None):
    """shared_ctx: one ssl.SSLContext object used for the origin AND (for https proxies) the proxy handshake - and,
    when net/origins/px are passed in, by a second pool on the same simulated network."""
    if net is not None:
        pcfg = None
        if proxy in ("http", "https"):
            pcfg = {"url": f"{proxy}://proxy.test:3128"}
        elif proxy in ("socks5", "socks5h"):
            pcfg = {"url": f"{proxy}://socks.test:1080"}
        if pcfg is not None and shared_ctx is not None and proxy == "https":
            pcfg["ssl_context"] = shared_ctx
        kw = {"ssl_context": shared_ctx} if shared_ctx is not None else {}
        pool = mk_pool(flavor, net, proxy=pcfg, http1=http1, http2=http2, **kw)
        return net, origins, px, pool, API(flavor, pool, net)
    net = simnet.Net()
    origins = {}
    reg = proxy is None
    for host, port in hosts_ports:
        origins[(host, port)] = endpoints.Origin(net, host, port, tls=None, alpn=server_alpn, register=reg)
    pcfg = None
    px = None
    if proxy in ("http", "https"):
        px = endpoints.HTTPProxy(net, "proxy.test", 3128, tls=proxy == "https", origins=list(origins.values()))
        pcfg = {"url": f"{proxy}://proxy.test:3128"}
    elif proxy in ("socks5", "socks5h"):
        px = endpoints.Socks5Proxy(net, "socks.test", 1080, origins=list(origins.values()))
        pcfg = {"url": f"{proxy}://socks.test:1080"}
    kw = {}
    if shared_ctx is not None:
        kw["ssl_context"] = shared_ctx
        if pcfg is not None and proxy == "https":
            pcfg["ssl_context"] = shared_ctx
    pool = mk_pool(flavor, net, proxy=pcfg, http1=http1, http2=http2, **kw)
    return net, origins, px, pool, API(flavor, pool, net)


def judge_request(net, origins, px, proxy, http1, http2, scheme, host, port_eff, tok, sni_ext, cnt, v, ctx):
    """All facts about the request carrying `tok`."""
    found = []
    for (h, p), o in origins.items():
        for req, resp in o.by_token.get(tok.encode(), []):
            found.append(((h, p), o, req))
    if not found:
        return False
    cnt["requests_delivered"] += 1
    (h, p), o, req = found[-1]
    tls_wanted = scheme in ("https", "wss")
    cnt["oracle_address"] += 1
    if (h, p) != (host, port_eff):
        v("wrong-endpoint", f"request for {scheme}://{host}:{port_eff} reached endpoint {h}:{p}", ctx)
    tr = net.transports[req.tr]
    # how was that endpoint reached?
    if proxy is None:
        if tr.target != (host, port_eff):
            v("wrong-connect-target:direct", f"connect_tcp{tr.target} for {host}:{port_eff}", ctx)
    elif proxy in ("http", "https"):
        if tr.target != ("proxy.test", 3128):
            v("proxy-bypassed", f"connect_tcp{tr.target}", ctx)
        if req.via == "forward":
            uh = f"[{host}]" if ":" in host else host
            want = f"{scheme}://{uh}".encode() + (b"" if ctx["port_kind"] == "implicit" else b":%d" % port_eff)
            if not req.target.startswith(want + b"/"):
                v("forward-target-not-the-url", f"{req.target!r} does not start with {want!r}", ctx)
            if tls_wanted:
                v("tls-origin-forwarded-in-clear", f"{scheme} request forwarded through the proxy instead of tunnelled", ctx)
            elif scheme != "http":
                # only plain http is handed to the proxy in absolute form; everything else gets a stream of its own to
                # exactly its host and port (CONNECT)
                v("non-http-origin-forwarded", f"{scheme} request forwarded through the proxy ({req.target!r}) instead of "
                  f"tunnelled to {host}:{port_eff}", ctx)
        else:
            conn = [c for c in px.connects if c["tr"] == req.tr]
            uh = f"[{host}]" if ":" in host else host
            if not conn or conn[-1]["target"] != f"{uh}:{port_eff}".encode():
                v("wrong-connect-target:tunnel", f"CONNECT {conn[-1]['target'] if conn else None!r} for {host}:{port_eff}", ctx)
    else:
        if tr.target != ("socks.test", 1080):
            v("proxy-bypassed", f"connect_tcp{tr.target}", ctx)
        sess = [s for s in px.sessions if s["tr"] == req.tr]
        rq = sess[-1]["request"] if sess else None
        if not rq or (rq["host"], rq["port"]) != (host, port_eff):
            v("wrong-connect-target:socks", f"SOCKS CONNECT {rq} for {host}:{port_eff}", ctx)
    cnt["oracle_tls"] += 1
    via = getattr(req, "via", "direct")
    if via != "forward":
        if tls_wanted and not req.tls:
            v(f"tls-missing:{scheme}:{proxy or 'direct'}", f"{scheme} request reached the origin without TLS (via {via})", ctx)
        if not tls_wanted and req.tls:
            v(f"tls-unwanted:{scheme}:{proxy or 'direct'}", f"{scheme} request was TLS-wrapped to the origin (via {via})", ctx)
    if req.tls and req.tls_info is not None:
        cnt["oracle_sni"] += 1
        want_sni = sni_ext or host
        if req.tls_info["sni"] != want_sni:
            mech = "sni_hostname-extension-ignored" if sni_ext and req.tls_info["sni"] == host else "other"
            v(f"wrong-sni:{mech}:{proxy or 'direct'}", f"server_hostname {req.tls_info['sni']!r}, expected {want_sni!r}", ctx)
        cnt["oracle_alpn"] += 1
        offered = req.tls_info["alpn_offered"] or []
        if ("h2" in offered) != bool(http2):
            v("alpn-offer:" + ("h2-offered-although-disabled" if "h2" in offered else "h2-not-offered-although-enabled"),
              f"ALPN offer {offered} with http2={http2}", ctx)
        if req.tls_info["ctx"] not in ("origin", "shared"):
            v("wrong-ssl-context-for-origin", f"origin handshake used context {req.tls_info['ctx']!r}", ctx)
    cnt["oracle_h2"] += 1
    if req.proto == "h2":
        negotiated = req.alpn == "h2"
        forced = http2 and not http1
        if not negotiated and not forced:
            v("h2-without-negotiation", f"HTTP/2 spoken with ALPN result {req.alpn!r}, http1={http1}, http2={http2}", ctx)
    elif req.alpn == "h2":
        v("h1-although-h2-negotiated", "ALPN selected h2 but HTTP/1.1 was spoken", ctx)
    if proxy == "https":
        # the proxy hop must itself be TLS (first layer, proxy context)
        if not tr.layers or tr.layers[0]["ctx"] not in ("proxy", "shared"):
            v("https-proxy-hop-not-tls", f"layers {tr.layers}", ctx)
        elif "h2" in (tr.layers[0]["alpn_offered"] or []):
            # connections to the proxy itself never speak HTTP/2
            v("alpn-offer:h2-offered-to-the-proxy", f"TLS handshake with the proxy offered {tr.layers[0]['alpn_offered']}", ctx)
        elif tr.layers[0]["sni"] != "proxy.test" and not (via == "forward" and tr.layers[0]["sni"] == sni_ext):
            # (for a forwarded request the only TLS connection made is the one to the proxy, so applying the
            # request's sni_hostname extension to it is accepted)
            v("proxy-hop-sni-taken-from-origin-extension", f"TLS to the proxy used server_hostname "
              f"{tr.layers[0]['sni']!r}", ctx)
    return True


def run_matrix(case):
    viol = []
    cnt = {k: 0 for k in ["configs", "requests_delivered", "oracle_address", "oracle_tls", "oracle_sni", "oracle_alpn",
                          "oracle_h2", "oracle_transport_origin", "sequences", "requests_failed"]}
    sigs = set()
    sample = {}

    def v(key, what, detail):
        if not any(x["key"] == key for x in viol):
            viol.append({"key": key, "what": what, "detail": detail})

    flavor = case["flavor"]

    async def main():
        for ci, cfg in enumerate(case["configs"]):
            scheme, port_kind, proxy, http1, http2, server_alpn, sni, host = cfg
            dflt = {"http": 80, "https": 443, "ws": 80, "wss": 443}[scheme]
            port_eff = dflt if port_kind in ("implicit", "explicit-default") else dflt + 8000
            # the host is a name, an IPv4 literal or an IPv6 literal (bracketed in the URL and in authorities, bare as a
            # connect address, SOCKS address and TLS server name)
            uhost = f"[{host}]" if ":" in host else host
            net, origins, px, pool, api = build(flavor, proxy, http1, http2, server_alpn, [(host, port_eff)])
            cnt["configs"] += 1
            hostport = uhost if port_kind == "implicit" else f"{uhost}:{port_eff}"
            ctx = {"scheme": scheme, "port_kind": port_kind, "proxy": proxy, "http1": http1, "http2": http2,
                   "server_alpn": server_alpn, "sni_hostname": sni, "flavor": flavor, "host": host}
            delivered = 0
            for i in range(2):
                tok = f"m{i}"
                CALL.set(tok)
                ext = {"sni_hostname": "sni.example"} if sni else {}
                out = await guarded(flavor, lambda: api.request("GET", f"{scheme}://{hostport}/p", headers=[("X-Token", tok)],
                                                                extensions=ext))
                if judge_request(net, origins, px, proxy, http1, http2, scheme, host, port_eff, tok,
                                 "sni.example" if sni else None, cnt, v, ctx):
                    delivered += 1
                elif out.kind == "ok":
                    # answered, but not by the origin the URL names (e.g. a proxy that could not make sense of the target)
                    v(f"request-never-reached-the-origin:{scheme}:{proxy or 'direct'}",
                      f"status {getattr(out.value, 'status', None)} and no request at {host}:{port_eff}", ctx)
                if out.kind != "ok":
                    cnt["requests_failed"] += 1
                    # an ALPN mismatch the client cannot serve (h2 selected, http2 disabled cannot happen: server only
                    # selects from the offer) - any failure of a well-formed configuration is reported
                    v(f"request-failed:{scheme}:{proxy or 'direct'}:{exc_name(out.exc) if out.kind == 'exc' else out.kind}",
                      f"{out!r}", ctx)
                    break
            if delivered:
                sigs.add("|".join(map(str, cfg)))
            if not sample and delivered and proxy:
                sample.update(ctx)
            await guarded(flavor, api.close_pool)

    run_flavor(flavor, None, main, seed=case["seed"])
    return {"viol": viol, "counters": cnt, "sigs": sorted(sigs), "sample": sample or None}


NEAR = [("http", "a.test", 80), ("ws", "a.test", 80), ("https", "a.test", 443), ("wss", "a.test", 443),
        ("http", "a.test", 8080), ("https", "a.test", 8443), ("http", "b.test", 80), ("https", "b.test", 443)]


def run_sequences(case):
    viol = []
    cnt = {k: 0 for k in ["configs", "requests_delivered", "oracle_address", "oracle_tls", "oracle_sni", "oracle_alpn",
                          "oracle_h2", "oracle_transport_origin", "sequences", "requests_failed"]}
    sigs = set()
    sample = {}
    flavor = case["flavor"]

    def v(key, what, detail):
        if not any(x["key"] == key for x in viol):
            viol.append({"key": key, "what": what, "detail": detail})

    async def main():
        r = random.Random(case["seed"])
        for _ in range(case["n"]):
            proxy = r.choice(PROXIES)
            http2 = r.random() < 0.4
            shared = simnet.RecordingSSLContext("shared") if r.random() < 0.4 else None
            two_pools = shared is not None and r.random() < 0.5
            net, origins, px, pool, api = build(flavor, proxy, True, http2, ["h2", "http/1.1"],
                                                sorted({(h, p) for _, h, p in NEAR}), shared_ctx=shared)
            pools = [(pool, api, http2)]
            if two_pools:
                # a second pool with the opposite HTTP/2 switch shares the caller's SSLContext object
                _, _, _, pool2, api2 = build(flavor, proxy, True, not http2, None, None, shared_ctx=shared, net=net,
                                             origins=origins, px=px)
                pools.append((pool2, api2, not http2))
            seq = [r.randrange(len(NEAR)) for _ in range(12)]
            cnt["sequences"] += 1
            carried = {}  # transport -> set of origins
            for j, k in enumerate(seq):
                scheme, host, port = NEAR[k]
                tok = f"q{j}"
                CALL.set(tok)
                explicit = r.random() < 0.5
                dflt = {"http": 80, "https": 443, "ws": 80, "wss": 443}[scheme]
                hp = f"{host}:{port}" if (explicit or port != dflt) else host
                pool_i = r.randrange(len(pools))
                _, api_i, http2_i = pools[pool_i]
                ctx = {"sequence": [NEAR[x] for x in seq[:j + 1]], "proxy": proxy, "http2": http2_i, "flavor": flavor,
                       "port_kind": "explicit" if (explicit or port != dflt) else "implicit",
                       "shared_ssl_context": shared is not None, "pools": len(pools), "pool": pool_i}
                out = await guarded(flavor, lambda: api_i.request("GET", f"{scheme}://{hp}/s", headers=[("X-Token", tok)]))
                if not judge_request(net, origins, px, proxy, True, http2_i, scheme, host, port, tok, None, cnt, v, ctx) \
                        and out.kind == "ok":
                    v(f"request-never-reached-the-origin:{scheme}:{proxy or 'direct'}",
                      f"status {getattr(out.value, 'status', None)} and no request at {host}:{port}", ctx)
                for (h, p), o in origins.items():
                    for req, resp in o.by_token.get(tok.encode(), []):
                        carried.setdefault(req.tr, set()).add((scheme, host, port, pool_i))
                        cnt["oracle_transport_origin"] += 1
                        if len(carried[req.tr]) > 1:
                            v("connection-shared-by-different-origins", f"transport {req.tr} carried requests of "
                              f"{sorted(carried[req.tr])}", ctx)
                if out.kind != "ok":
                    cnt["requests_failed"] += 1
                    v(f"request-failed:{scheme}:{proxy or 'direct'}:{exc_name(out.exc) if out.kind == 'exc' else out.kind}",
                      f"{out!r}", ctx)
                    break
            sigs.add(f"seq|{proxy}|{http2}|{shared is not None}|{len(pools)}|{seq}")
            if not sample:
                sample.update({"sequence": [NEAR[x] for x in seq], "proxy": proxy, "transports": {str(k): sorted(v_) for k, v_ in carried.items()}})
            for _, a_, _ in pools:
                await guarded(flavor, a_.close_pool)

    run_flavor(flavor, None, main, seed=case["seed"])
    return {"viol": viol, "counters": cnt, "sigs": sorted(sigs), "sample": sample or None}


def run_case(case):
    return run_matrix(case) if case["kind"] == "matrix" else run_sequences(case)


def plan(tier, seed):
    configs = []
    for scheme, port_kind, proxy, (h1, h2), alpn, sni, host in itertools.product(
            ["http", "https", "ws", "wss"], ["implicit", "explicit-default", "other"], PROXIES,
            [(True, False), (True, True), (False, True)], [None, ["http/1.1"], ["h2", "http/1.1"]], [False, True],
            sorted(set(HOSTS))):
        configs.append([scheme, port_kind, proxy, h1, h2, alpn, sni, host])
    cases = []
    flavors = ["asyncio", "trio", "sync"]
    n = 24
    for i in range(n):
        cases.append({"kind": "matrix", "configs": configs[i::n], "flavor": flavors[i % 3], "seed": seed + i})
    nseq, per = (24, 25) if tier == "quick" else (240, 100)
    for i in range(nseq):
        cases.append({"kind": "seq", "flavor": flavors[i % 3], "seed": seed * 7919 + i, "n": per})
    return cases
