"""C04 — the connection limit is never exceeded. Limit oracle evaluated after every ledger
event of concurrent workloads with constant eviction pressure."""
from __future__ import annotations

import random

from ..workload import Workload, gen_spec, LimitObserver
from ..world import run_flavor
from .c01 import fingerprint

ID = "C04"
LEVEL = "exploration"
RULE = ("seeded workloads with N=max_connections in {1,2,3,5}, 2N..4N callers over N+2 origins (so idle connections are "
        "evicted constantly), all caller/server behaviours, faults, cancellations, HTTP/1.1 / TLS / HTTP/2, direct and "
        "proxied; after EVERY ledger event: len(pool.connections) <= N; each pooled connection owns <= 1 open stream; "
        "open streams never yet owned (establishing) fit into pooled connections that own none; only streams of "
        "already-evicted connections are excused; plus the synchronous pool shared by 3-4 real threads under the controlled "
        "scheduler with line-level pre-emption (HTTP/1.1, N in {1,2}, N+2 origins); distinct+non-trivial = new interleaving fingerprint in which the "
        "pool reached its limit")
ASSUMPTIONS = ["ownership = gc reachability from pool.connections; an open stream that was once owned and is no longer "
               "reachable belongs to an evicted connection being closed (its eventual close is C06's concern)"]
REQUIRED = ["workloads", "oracle_evaluations", "oracle_full_evaluations", "limit_reached", "evictions_excused"]


def run_threads(case):
    """The same limit oracle with the synchronous pool shared by real threads under the controlled scheduler
    (line-level pre-emption, as C08): the assignment passes of different threads must not overlap."""
    from ..world import run_threaded, run_sync
    viol = []
    cnt = {"workloads": 0, "oracle_evaluations": 0, "oracle_full_evaluations": 0, "limit_reached": 0,
           "evictions_excused": 0, "transports": 0, "oracle_evicted_closed": 0, "max_open_over_limit_excused": 0, "requests": 0,
           "thread_schedules": 0, "context_switches": 0}
    sigs = set()
    for spec in case["specs"]:
        for sched in case["scheds"]:
            box = {}

            def setup(s):
                wl = Workload(spec)
                wl.net.log_events = False
                ob = LimitObserver(wl)
                wl.net.observers.append(ob)
                box.update(wl=wl, ob=ob)
                return {f"t{c}": (lambda c=c: run_sync(wl.caller(c))) for c in range(spec["n_callers"])}

            s, outs, shim = run_threaded(setup, seed=sched["seed"] ^ spec["seed"], strategy=sched["strategy"],
                                         p=sched.get("p", 0.1), depth=sched.get("depth", 2), lines=True, est_steps=3000)
            wl, ob = box["wl"], box["ob"]
            if not s.wall_ok:
                return {"viol": viol, "counters": cnt, "sigs": sorted(sigs), "sample": None,
                        "inconclusive": "thread run exceeded its wall-clock limit"}
            cnt["workloads"] += 1
            cnt["thread_schedules"] += 1
            cnt["context_switches"] += s.switches
            cnt["requests"] += len(wl.records)
            cnt["oracle_evaluations"] += ob.evals
            cnt["oracle_full_evaluations"] += ob.full_evals
            cnt["transports"] += len(wl.net.transports)
            if ob.max_conns >= ob.N:
                cnt["limit_reached"] += 1
                import hashlib
                sigs.add("thr:" + hashlib.sha1(bytes(s.trace[:4000])).hexdigest()[:16])
            cnt["evictions_excused"] += ob.max_excused
            for key, det in ob.viol:
                if not any(x["key"] == "threads:" + key for x in viol):
                    viol.append({"key": "threads:" + key, "what": f"{key}: {det}",
                                 "detail": {"spec": spec, "schedule": sched, "detail": det}})
            try:
                wl.pool.close()
            except Exception:  # noqa
                pass
    return {"viol": viol, "counters": cnt, "sigs": sorted(sigs), "sample": None}


def run_multi_evict(case):
    """A pass that evicts several connections while the triggering request is cancelled at every suspension point (the
    enumeration of C06's 'multi-evict' part): a connection that is evicted but never closed is a stream that stays open
    beyond the limit for ever - 'apart from connections it has already evicted and is closing' only excuses the closing."""
    from .c06 import run_multi_evict as run
    res = run(case)
    res.pop("extras", None)
    cnt = {"workloads": 0, "oracle_evaluations": 0, "oracle_full_evaluations": 0, "limit_reached": 0,
           "evictions_excused": 0, "transports": 0, "oracle_evicted_closed": 0, "max_open_over_limit_excused": 0, "requests": 0}
    cnt["oracle_evicted_closed"] = res["counters"]["cancels_fired"]
    cnt["workloads"] = res["counters"]["multi_evict_runs"]
    cnt["transports"] = res["counters"]["transports_opened"]
    viol = [{"key": "evicted-connection-never-closed:" + x["key"].split(":", 2)[2], "what": x["what"], "detail": x["detail"]}
            for x in res["viol"]]
    return {"viol": viol, "counters": cnt, "sigs": res["sigs"], "sample": None}


def run_case(case):
    if case.get("threads"):
        return run_threads(case)
    if case.get("multi_evict"):
        return run_multi_evict(case)
    viol = []
    cnt = {"workloads": 0, "oracle_evaluations": 0, "oracle_full_evaluations": 0, "limit_reached": 0,
           "evictions_excused": 0, "transports": 0, "oracle_evicted_closed": 0, "max_open_over_limit_excused": 0, "requests": 0}
    sigs = set()
    sample = {}

    def v(key, what, detail):
        if not any(x["key"] == key for x in viol):
            viol.append({"key": key, "what": what, "detail": detail})

    async def main():
        for spec in case["specs"]:
            wl = Workload(spec)
            wl.net.log_events = False
            ob = LimitObserver(wl)
            wl.net.observers.append(ob)
            await wl.run()
            wl.net.observers.remove(ob)
            cnt["workloads"] += 1
            cnt["requests"] += len(wl.records)
            cnt["oracle_evaluations"] += ob.evals
            cnt["oracle_full_evaluations"] += ob.full_evals
            cnt["transports"] += len(wl.net.transports)
            if ob.max_conns >= ob.N:
                cnt["limit_reached"] += 1
                sigs.add(fingerprint(wl.net))
            cnt["evictions_excused"] += ob.max_excused
            if ob.max_open > ob.N:
                cnt["max_open_over_limit_excused"] += 1
            for key, det in ob.viol:
                v(key, f"{key}: {det}", {"spec": spec, "detail": det})
            cnt["oracle_evicted_closed"] += 1
            left = ob.leftovers()
            if left:
                v("evicted-connection-never-closed", f"streams {left} of connections no longer in the pool are still open "
                  f"after all callers finished", {"spec": spec, "streams": left})
            if not sample and ob.max_conns >= ob.N:
                sample.update({"spec": spec, "max_connections_seen": ob.max_conns, "max_open_streams_seen": ob.max_open,
                               "oracle_evaluations": ob.evals})
            try:
                await wl.api.close_pool()
            except Exception:  # noqa
                pass

    run_flavor(case["flavor"], None, main, seed=case["seed"])
    return {"viol": viol, "counters": cnt, "sigs": sorted(sigs), "sample": sample or None}


def plan(tier, seed):
    r = random.Random(seed * 211 + 4)
    n_cases, per = (64, 16) if tier == "quick" else (640, 50)
    cases = []
    for i in range(n_cases):
        flavor = ["asyncio", "trio"][i % 2]
        specs = []
        for _ in range(per):
            n = r.choice([1, 2, 3, 5])
            specs.append(gen_spec(r, flavor, max_connections=n, n_origins=n + 2, n_callers=r.randint(2 * n, 4 * n),
                                  reqs=r.randint(2, 4)))
        cases.append({"flavor": flavor, "specs": specs, "seed": r.randrange(1 << 30)})
    # HTTP/2 connections that the server shuts down (GOAWAY) early, while other streams on them are still in flight and
    # the pool is at its limit: a connection on its way out still holds its place until it is really closed
    for i in range(8 if tier == "quick" else 80):
        flavor = ["asyncio", "trio"][i % 2]
        specs = []
        for _ in range(per):
            n = r.choice([1, 1, 2])
            script = {"actions": [{"when": [r.choice(["head", "end"]), r.randrange(0, 3)], "do": "goaway",
                                   "last": r.choice(["this", "prev", "prev", 2 ** 31 - 1])}]}
            specs.append(gen_spec(r, flavor, proto="h2", proxy=r.choice([None, None, "tun"]), max_connections=n, n_origins=r.choice([1, 1, 2]),
                                  n_callers=r.randint(3, 6), reqs=r.randint(2, 4), h2_script=script, fault_ops=[], connect_fail=0.0,
                                  behaviours=["read", "head-only", "partial", "partial", "post", "read"], resp_delay=r.choice([0.1, 0.5])))
        cases.append({"flavor": flavor, "specs": specs, "seed": r.randrange(1 << 30)})
    # the synchronous pool under threads
    n_thr, n_specs, n_scheds = (16, 4, 6) if tier == "quick" else (160, 8, 12)
    for i in range(n_thr):
        specs = []
        for _ in range(n_specs):
            n = r.choice([1, 1, 2])
            base = dict(n_callers=r.randint(3, 4), reqs=r.randint(2, 3), proxy=None, fault_ops=[], latency=r.choice(["zero", "mixed"]),
                        think=0.0, pool_timeout=None, resp_delay=r.choice([0.0, 0.01]), retries=0, connect_fail=0.0,
                        behaviours=["read", "read", "head-only", "partial", "post"], server_modes=False, early=False,
                        max_body=5000, proto=r.choice(["h1", "h1tls"]), n_origins=n + 2, max_connections=n,
                        max_keepalive=r.choice([0, 1, None]), keepalive_expiry=None)
            spec = gen_spec(r, "sync", **base)
            spec.pop("pool_kw", None)
            specs.append(spec)
        scheds = []
        for j in range(n_scheds):
            if j % 2 == 0:
                scheds.append({"strategy": "random", "p": r.choice([0.02, 0.1, 0.3]), "seed": r.randrange(1 << 30)})
            else:
                scheds.append({"strategy": "pct", "depth": r.choice([1, 2, 3]), "seed": r.randrange(1 << 30)})
        cases.append({"threads": True, "specs": specs, "scheds": scheds, "seed": r.randrange(1 << 30)})
    for fl in ("asyncio", "trio"):
        cases.append({"multi_evict": True, "flavor": fl})
    return cases
