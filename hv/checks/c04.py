"""C04 — the connection limit is never exceeded. Limit oracle evaluated after every ledger
event of concurrent workloads with constant eviction pressure."""
from __future__ import annotations

import random

from ..workload import Workload, gen_spec, LimitObserver
from ..world import run_flavor
from .c01 import fingerprint

ID = "C04"
LEVEL = "exploration"
RULE = ("seeded workloads with N=max_connections in {1,2,3,5}, 2N..4N callers over N+2 origins (so idle connections are "
        "evicted constantly), all caller/server behaviours, faults, cancellations, HTTP/1.1 / TLS / HTTP/2, direct and "
        "proxied; after EVERY ledger event: len(pool.connections) <= N; each pooled connection owns <= 1 open stream; "
        "open streams never yet owned (establishing) fit into pooled connections that own none; only streams of "
        "already-evicted connections are excused; distinct+non-trivial = new interleaving fingerprint in which the "
        "pool reached its limit")
ASSUMPTIONS = ["ownership = gc reachability from pool.connections; an open stream that was once owned and is no longer "
               "reachable belongs to an evicted connection being closed (its eventual close is C06's concern)"]
REQUIRED = ["workloads", "oracle_evaluations", "oracle_full_evaluations", "limit_reached", "evictions_excused"]


def run_case(case):
    viol = []
    cnt = {"workloads": 0, "oracle_evaluations": 0, "oracle_full_evaluations": 0, "limit_reached": 0,
           "evictions_excused": 0, "transports": 0, "oracle_evicted_closed": 0, "max_open_over_limit_excused": 0, "requests": 0}
    sigs = set()
    sample = {}

    def v(key, what, detail):
        if not any(x["key"] == key for x in viol):
            viol.append({"key": key, "what": what, "detail": detail})

    async def main():
        for spec in case["specs"]:
            wl = Workload(spec)
            wl.net.log_events = False
            ob = LimitObserver(wl)
            wl.net.observers.append(ob)
            await wl.run()
            wl.net.observers.remove(ob)
            cnt["workloads"] += 1
            cnt["requests"] += len(wl.records)
            cnt["oracle_evaluations"] += ob.evals
            cnt["oracle_full_evaluations"] += ob.full_evals
            cnt["transports"] += len(wl.net.transports)
            if ob.max_conns >= ob.N:
                cnt["limit_reached"] += 1
                sigs.add(fingerprint(wl.net))
            cnt["evictions_excused"] += ob.max_excused
            if ob.max_open > ob.N:
                cnt["max_open_over_limit_excused"] += 1
            for key, det in ob.viol:
                v(key, f"{key}: {det}", {"spec": spec, "detail": det})
            cnt["oracle_evicted_closed"] += 1
            left = ob.leftovers()
            if left:
                v("evicted-connection-never-closed", f"streams {left} of connections no longer in the pool are still open "
                  f"after all callers finished", {"spec": spec, "streams": left})
            if not sample and ob.max_conns >= ob.N:
                sample.update({"spec": spec, "max_connections_seen": ob.max_conns, "max_open_streams_seen": ob.max_open,
                               "oracle_evaluations": ob.evals})
            try:
                await wl.api.close_pool()
            except Exception:  # noqa
                pass

    run_flavor(case["flavor"], None, main, seed=case["seed"])
    return {"viol": viol, "counters": cnt, "sigs": sorted(sigs), "sample": sample or None}


def plan(tier, seed):
    r = random.Random(seed * 211 + 4)
    n_cases, per = (64, 16) if tier == "quick" else (640, 50)
    cases = []
    for i in range(n_cases):
        flavor = ["asyncio", "trio"][i % 2]
        specs = []
        for _ in range(per):
            n = r.choice([1, 2, 3, 5])
            specs.append(gen_spec(r, flavor, max_connections=n, n_origins=n + 2, n_callers=r.randint(2 * n, 4 * n),
                                  reqs=r.randint(2, 4)))
        cases.append({"flavor": flavor, "specs": specs, "seed": r.randrange(1 << 30)})
    return cases
