"""C14 — a request is put on the wire at most once unless the server refused it.

Token counting across all simulated transports under every fault position (part A) and a
GOAWAY matrix (part B): heads per call <= 1 apart from streams above a GOAWAY's
last-stream-id; after a fault that hit a call once its request bytes had started, the call
must fail and must neither connect again nor put its head anywhere else; after GOAWAY has
reached the client no new stream is opened on that connection."""
from __future__ import annotations

import random

import anyio

from .. import REPO  # noqa: F401
import httpcore

from .. import simnet, endpoints, runners
from ..scenarios import Sc, TYPES, TYPE_CLASS
from ..simnet import CALL, FAULTS_FOR
from ..world import run_flavor, guarded, exc_name, documented, is_async, API

ID = "C14"
LEVEL = "fault_enumeration"
RULE = ("part A: {h1, h1tls, h2, h2pk, fwd} x {GET, POST streamed} x {1, 3 concurrent callers} x retries in {0,2} x "
        "flavours x (every network op x every documented fault kind); part B: HTTP/2 with 3 concurrent requests x "
        "GOAWAY sent at (head|end of request n) x last-stream-id in {0, previous, this, all} x {GET, POST bytes, POST "
        "iterator, POST 150 kB (beyond the initial window, so the uploader itself reads the GOAWAY; also with no upload credit at all on the "
        "first connection, so every upload is in its flow-control wait when the GOAWAY arrives)} x seeded op latencies; "
        "part C: HTTP/1.1 over {direct, TLS, maybe-h2, tunnel, SOCKS}: while a streamed POST body is still being written the "
        "server {answers early, answers early and closes, closes without answering} x new / kept-alive connection x write "
        "latency x retries; distinct+non-trivial = (type, shape, callers, retries, flavour, fault kind, op kind, trace phase) "
        "resp. (when, n, last, shape, flavour)")
ASSUMPTIONS = ["a call's bytes are attributed by the contextvar set in the caller's task/thread; HTTP/2 heads by the "
               "decoded X-Token", "a part C run is cut off after 3000 network operations (a request re-sent without end) "
               "and then judged by the same oracles", "request bytes 'started' = fault fell in a send_request_* / receive_response_* trace phase"]
REQUIRED = ["runs", "faults_fired", "oracle_heads_at_most_once", "oracle_no_resend_after_failure", "goaway_runs", "transparent_runs",
            "goaway_refused_streams", "goaway_resent_ok"]

SENT_PHASES = ("send_request_headers", "send_request_body", "receive_response_headers", "receive_response_body")


def heads_by_token(sc):
    out = {}
    for o in sc.origins:
        for req in o.requests:
            if req.token is None:
                continue
            out.setdefault(req.token.decode(), []).append(req)
    return out


async def one_call(sc, shape, name):
    api = sc.api
    CALL.set(name)
    hdrs = [("X-Token", name)]
    ext = sc.ext(name)
    if shape == "get":
        r = await api.request("GET", sc.url(), headers=hdrs, extensions=ext)
    elif shape == "post-bytes":
        r = await api.request("POST", sc.url(), headers=hdrs, content=b"B" * 2000, extensions=ext)
    elif shape == "post-big":
        # larger than the 65,535-byte initial window: the upload has to wait for WINDOW_UPDATE frames, so it is
        # the uploading task itself that reads whatever the server sent meanwhile (a GOAWAY, for instance)
        body = api.body([b"g" * 30000] * 5)
        r = await api.request("POST", sc.url(), headers=hdrs, content=body, extensions=ext)
    elif shape == "post-once":
        # a body that can be produced only once (a plain generator): whatever a re-send does, it cannot send it again
        chunks = [b"a" * 700, b"b" * 700, b"c" * 600]
        if api.a:
            async def once():
                for c in chunks:
                    yield c
        else:
            def once():
                for c in chunks:
                    yield c
        r = await api.request("POST", sc.url(), headers=hdrs, content=once(), extensions=ext)
    else:
        body = api.body([b"a" * 700, b"b" * 700, b"c" * 600])
        r = await api.request("POST", sc.url(), headers=hdrs, content=body, extensions=ext)
    return r.status, r.content[:30]


async def run_many(flavor, ctype, shape, n, retries, fault=None, h2_script=None, lat_seed=None, sequential=False, warm=False):
    sc = Sc(ctype, flavor, max_connections=3, resp_delay=0.5, retries=retries)
    if lat_seed is not None:
        lr = random.Random(lat_seed)
        sc.net.latency = lambda kind, idx: lr.choice([0.0, 0.0, 0.001, 0.01])
    if h2_script is not None:
        for o in sc.origins:
            o.h2_script = dict(h2_script)
    net = sc.net
    net.op_budget = 12000  # (a run needs < 3000; a request re-sent for ever ends here and is judged)
    info = {"fault_seq": None, "fault_call": None, "fault_phase": None}
    if fault is not None:
        net.faults[fault[0]] = fault[1]

        def on_fault(idx, kind, f):
            info["fault_seq"] = len(net.events)
            info["fault_call"] = CALL.get()
            ph = sc.phase.get(CALL.get())
            info["fault_phase"] = ph["cur"] if ph else None
        net.on_fault = on_fault
    outcomes = {}

    async def body():
        if warm:
            # the calls under test run on a kept-alive connection (HTTP/2: later streams of one connection)
            await one_call(sc, "get", "w0")
        if n == 1 or sequential or not is_async(flavor):
            for i in range(n):
                try:
                    outcomes[f"c{i}"] = runners.Outcome("ok", await one_call(sc, shape, f"c{i}"))
                except Exception as exc:  # noqa
                    outcomes[f"c{i}"] = runners.Outcome("exc", exc=exc)
        else:
            outcomes.update(await runners.gather({f"c{i}": (lambda i=i: one_call(sc, shape, f"c{i}")) for i in range(n)}))
        return True

    run = await guarded(flavor, body)
    return sc, outcomes, info, run


def judge_common(sc, outcomes, cnt, v, ctx):
    """(a) heads per token <= 1 excluding GOAWAY-refused ones; refused ones re-sent at most once."""
    heads = heads_by_token(sc)
    for tok, reqs in heads.items():
        cnt["oracle_heads_at_most_once"] += 1
        counted = [r for r in reqs if not getattr(r, "refused_by_goaway", False)]
        refused = [r for r in reqs if getattr(r, "refused_by_goaway", False)]
        if len(counted) > 1:
            trs = sorted({r.tr for r in counted})
            v("request-on-wire-twice:" + ("same-transport" if len(trs) == 1 else "two-transports"),
              f"call {tok}: {len(counted)} request heads reached servers (transports {trs}) without a refusal",
              dict(ctx, token=tok))
        if len(refused) > 1 and len({r.tr for r in refused}) == 1:
            v("refused-stream-resent-on-same-connection", f"call {tok}", dict(ctx, token=tok))
    return heads


def run_part_a(case):
    flavor, ctype, shape, n, retries = case["flavor"], case["ctype"], case["shape"], case["n"], case["retries"]
    viol = []
    cnt = {"runs": 0, "faults_fired": 0, "oracle_heads_at_most_once": 0, "oracle_no_resend_after_failure": 0,
           "failed_after_bytes_sent": 0, "goaway_runs": 0, "goaway_refused_streams": 0, "goaway_resent_ok": 0}
    sigs = set()
    sample = {}

    def v(key, what, detail):
        if not any(x["key"] == key for x in viol):
            viol.append({"key": key, "what": what, "detail": detail})

    async def main():
        warm = bool(case.get("warm"))
        sc, outcomes, info, run = await run_many(flavor, ctype, shape, n, retries, warm=warm)
        cnt["runs"] += 1
        ctx0 = {"case": case}
        judge_common(sc, outcomes, cnt, v, ctx0)
        if any(o.kind != "ok" for o in outcomes.values()) or run.kind != "ok":
            v("baseline-failed", f"{outcomes!r} {run!r}", ctx0)
            return
        ops = [o for o in sc.net.ops]
        await sc.api.close_pool()
        plan_ = [(idx, f) for idx, kind, tr, call in ops for f in FAULTS_FOR[kind]]
        if case["tier"] == "quick" and len(plan_) > 60:
            plan_ = sorted(random.Random(case["seed"]).sample(plan_, 60))
        kinds = {o[0]: o[1] for o in ops}
        sample.update({"case": case, "ops": [o[1] for o in ops][:30], "injections": len(plan_)})
        for idx, f in plan_:
            sc, outcomes, info, run = await run_many(flavor, ctype, shape, n, retries, fault=(idx, f), warm=warm)
            cnt["runs"] += 1
            cnt["runs_on_reused_connection"] = cnt.get("runs_on_reused_connection", 0) + warm
            ctx = {"case": case, "fault": [idx, f], "op": kinds.get(idx), "phase": info["fault_phase"],
                   "fault_call": info["fault_call"]}
            if run.kind == "hang":
                v(f"hang:{TYPE_CLASS[ctype]}:{f}@{kinds.get(idx)}", "callers hang after an injected fault", ctx)
            if info["fault_seq"] is None:
                await sc.api.close_pool()
                continue
            cnt["faults_fired"] += 1
            phase = info["fault_phase"] or "-"
            sigs.add(f"A|{ctype}|{shape}|n{n}|r{retries}|{flavor}|{f}@{kinds.get(idx)}|{phase}|{'reused' if warm else 'new'}")
            judge_common(sc, outcomes, cnt, v, ctx)
            who = info["fault_call"]
            base = phase.split(".")[1] if "." in phase else phase
            if who in outcomes and base in SENT_PHASES:
                cnt["oracle_no_resend_after_failure"] += 1
                cnt["failed_after_bytes_sent"] += 1
                o = outcomes[who]
                later = [e for e in sc.net.events[info["fault_seq"]:] if e["call"] == who]
                reconnect = [e for e in later if e["ev"] == "connect.call"]
                rehead = [e for e in sc.net.events[info["fault_seq"]:] if e["ev"] == "req.head" and
                          e.get("token") == who.encode()]
                tolerated_ok = f in ("WriteError", "WriteTimeout", "PartialWrite") and False
                if o.kind == "ok" and not tolerated_ok:
                    # an HTTP/1.1 write error is deliberately ignored in favour of reading the response; with the
                    # simulated transport broken that read fails too, so success means a retry happened
                    v(f"failure-after-bytes-sent-not-reported:{f}@{kinds.get(idx)}:{base}",
                      f"fault {f} in phase {phase} hit call {who} but the call returned {o.value!r}", ctx)
                if reconnect or rehead:
                    v(f"retried-after-bytes-sent:{f}@{kinds.get(idx)}:{base}",
                      f"after fault {f} in phase {phase}, call {who} connected again ({len(reconnect)}) / its head "
                      f"appeared again ({len(rehead)})", ctx)
            for name, o in outcomes.items():
                if o.kind == "exc" and not documented(o.exc) and False:
                    pass
            await sc.api.close_pool()

    run_flavor(flavor, None, main, seed=case["seed"])
    return {"viol": viol, "counters": cnt, "sigs": sorted(sigs), "sample": sample or None}


def run_part_b(case):
    flavor, shape = case["flavor"], case["shape"]
    viol = []
    cnt = {"runs": 0, "faults_fired": 0, "oracle_heads_at_most_once": 0, "oracle_no_resend_after_failure": 0,
           "failed_after_bytes_sent": 0, "goaway_runs": 0, "goaway_refused_streams": 0, "goaway_resent_ok": 0,
           "goaway_streams_completed_below": 0, "oracle_no_stream_after_goaway": 0}
    sigs = set()
    sample = {}

    def v(key, what, detail):
        if not any(x["key"] == key for x in viol):
            viol.append({"key": key, "what": what, "detail": detail})

    async def main():
        for when in ("head", "end"):
            for nreq in (0, 1, 2):
                for last in (0, "prev", "this", 2 ** 31 - 1):
                  for lat_seed in case.get("lat_seeds", [None]):
                      if case.get("win") == "hold-until-goaway" and when == "end":
                          continue  # no upload can end before the GOAWAY that it is waiting for
                      script = {"data_chunk": 1000, "actions": [{"when": (when, nreq), "do": "goaway", "last": last}]}
                      if case.get("win"):
                          script["win"] = case["win"]
                      sc, outcomes, info, run = await run_many(flavor, case["ctype"], shape, 3, 0, h2_script=script,
                                                               lat_seed=lat_seed)
                      cnt["runs"] += 1
                      cnt["goaway_runs"] += 1
                      ctx = {"case": case, "goaway": {"when": when, "n": nreq, "last": last},
                             "outcomes": {k: repr(o) for k, o in outcomes.items()}}
                      sigs.add(f"B|{flavor}|{shape}|{when}|{nreq}|{last}|{lat_seed}|{case.get('win')}")
                      if run.kind == "hang":
                          v("goaway-hang", "callers hang after GOAWAY", ctx)
                          continue
                      heads = judge_common(sc, outcomes, cnt, v, ctx)
                      cnt["oracle_no_stream_after_goaway"] += 1
                      for o in sc.origins:
                          for a in o.anomalies:
                              if a["kind"] == "h2-ledger:stream-opened-after-goaway":
                                  # the HEADERS reached the wire after the client had been handed the GOAWAY. That is a
                                  # violation if the client *opened* the stream after that moment (trace event
                                  # send_request_headers.started); a stream opened before it, whose HEADERS were still
                                  # waiting for the write lock, is an unavoidable race
                                  opened_knowing = False
                                  known = False
                                  for ph in sc.phase.values():
                                      for rec in ph.get("h2_open", []):
                                          if rec["stream"] == a.get("stream"):
                                              known = True
                                              if a.get("tr") in rec["goaway_consumed_on"]:
                                                  opened_knowing = True
                                  if opened_knowing or not known:
                                      v("stream-opened-after-goaway", repr(a), ctx)
                                  else:
                                      cnt["goaway_write_races_excused"] = cnt.get("goaway_write_races_excused", 0) + 1
                              elif a["kind"].startswith("h2-ledger:") or a["kind"] == "h2-server-role-error":
                                  v("goaway-protocol-anomaly:" + a["kind"], repr(a), ctx)
                      for tok, reqs in heads.items():
                          refused = [r for r in reqs if getattr(r, "refused_by_goaway", False)]
                          counted = [r for r in reqs if not getattr(r, "refused_by_goaway", False)]
                          o = outcomes.get(tok)
                          if refused:
                              cnt["goaway_refused_streams"] += 1
                              # provably unprocessed: the client may re-send it once elsewhere; either way the
                              # caller gets an answer or a documented error
                              if o is not None and o.kind == "ok":
                                  cnt["goaway_resent_ok"] += 1
                                  if len(counted) != 1:
                                      v("refused-request-answered-without-resend", f"{tok}", ctx)
                                  else:
                                      rs = counted[0]
                                      want = {"get": b"", "post-bytes": b"B" * 2000, "post-iter": b"a" * 700 + b"b" * 700 + b"c" * 600,
                                              "post-once": b"a" * 700 + b"b" * 700 + b"c" * 600,
                                              "post-big": b"g" * 150000}[shape]
                                      if bytes(rs.body) != want:
                                          v(f"resent-request-body-mismatch:{shape}", f"re-sent request of {tok} carried "
                                            f"{len(rs.body)} body bytes, caller's body has {len(want)}", ctx)
                              elif o is not None and o.kind == "exc" and not documented(o.exc):
                                  v("refused-request-undocumented-exception:" + exc_name(o.exc), repr(o), ctx)
                          elif counted:
                              r0 = counted[0]
                              covered = (sc.origins[0].conns and True)
                              if o is not None and o.kind == "ok":
                                  cnt["goaway_streams_completed_below"] += 1
                              elif o is not None and o.kind == "exc" and not documented(o.exc):
                                  v("goaway-undocumented-exception:" + exc_name(o.exc), repr(o), ctx)
                      if not sample:
                          sample.update(ctx)
                      await sc.api.close_pool()

    run_flavor(flavor, None, main, seed=case["seed"])
    return {"viol": viol, "counters": cnt, "sigs": sorted(sigs), "sample": sample or None}


def run_part_d(case):
    """A refusal is transparent: one caller, nothing else on the connection, the GOAWAY is the last thing the server says
    on it and names a last-stream-id below the request's stream (0 when it is the first request of the connection, the
    previous stream otherwise). Nothing stands in the way of the re-send, so the call must succeed, with one refused
    transmission and exactly one complete one."""
    flavor, shape, ctype = case["flavor"], case["shape"], case["ctype"]
    viol = []
    cnt = {"runs": 0, "transparent_runs": 0, "transparent_resent_ok": 0}
    sigs = set()

    def v(key, what, detail):
        if not any(x["key"] == key for x in viol):
            viol.append({"key": key, "what": what, "detail": detail})

    want = {"get": b"", "post-bytes": b"B" * 2000, "post-iter": b"a" * 700 + b"b" * 700 + b"c" * 600, "post-big": b"g" * 150000}[shape]

    async def main():
        for nth, last in ((0, 0), (1, "prev"), (1, 0), (2, "prev")):
            for lat_seed in (None, 1, 2):
                script = {"data_chunk": 1000, "actions": [{"when": ("head", nth), "do": "goaway", "last": last, "conn": 0}]}
                sc, outcomes, info, run = await run_many(flavor, ctype, shape, nth + 1, 0, h2_script=script, lat_seed=lat_seed,
                                                         sequential=True)
                cnt["runs"] += 1
                cnt["transparent_runs"] += 1
                sigs.add(f"D|{flavor}|{ctype}|{shape}|{nth}|{last}|{lat_seed}")
                ctx = {"case": case, "goaway": {"nth": nth, "last": last}, "outcomes": {k: repr(o) for k, o in outcomes.items()}}
                if run.kind == "hang":
                    v("goaway-hang", "caller hangs after GOAWAY", ctx)
                    continue
                heads = heads_by_token(sc)
                tok = f"c{nth}"
                o = outcomes.get(tok)
                reqs = heads.get(tok, [])
                refused = [r for r in reqs if getattr(r, "refused_by_goaway", False)]
                counted = [r for r in reqs if not getattr(r, "refused_by_goaway", False)]
                if o is None or o.kind != "ok":
                    v(f"refused-request-not-resent:last={'0' if last == 0 else 'prev'}",
                      f"the server refused the request with GOAWAY(last-stream-id {last}) and said nothing else; the caller got {o!r} "
                      f"instead of a transparent re-send ({len(refused)} refused, {len(counted)} other transmissions)", ctx)
                    continue
                cnt["transparent_resent_ok"] += 1
                if len(refused) != 1 or len(counted) != 1:
                    v("transparent-resend-count", f"{len(refused)} refused + {len(counted)} other transmissions", ctx)
                elif bytes(counted[0].body) != want:
                    v(f"resent-request-body-mismatch:{shape}", f"{len(counted[0].body)} bytes, caller's body has {len(want)}", ctx)
                for k, oo in outcomes.items():
                    if k != tok and oo.kind != "ok":
                        v("request-before-the-goaway-failed", f"{k}: {oo!r}", ctx)
                await sc.api.close_pool()

    async def main_rst():
        # the server resets one of three concurrent streams after it has received the whole request and before any response
        # header (any error code): the request may have been acted upon - it fails, and is on the wire once
        if shape == "post-big":
            return
        cnt.setdefault("oracle_heads_at_most_once", 0)
        for nth in (0, 1, 2):
            for code in (8, 2, 7, 11):
                script = {"data_chunk": 1000, "actions": [{"when": ("end", nth), "do": "rst", "code": code}]}
                sc, outcomes, info, run = await run_many(flavor, ctype, shape, 3, 0, h2_script=script)
                cnt["runs"] += 1
                cnt["rst_before_response_runs"] = cnt.get("rst_before_response_runs", 0) + 1
                ctx = {"case": case, "rst": {"nth": nth, "code": code}, "outcomes": {k: repr(o) for k, o in outcomes.items()}}
                sigs.add(f"D-rst|{flavor}|{ctype}|{shape}|{nth}|{code}")
                if run.kind == "hang":
                    v("rst-hang", "callers hang after RST_STREAM", ctx)
                    continue
                heads = judge_common(sc, outcomes, cnt, v, ctx)
                for tok, reqs in heads.items():
                    if any(getattr(r_, "was_reset", False) for r_ in reqs) and outcomes.get(tok) is not None and outcomes[tok].kind == "ok":
                        v("reset-request-answered", f"{tok}: the server reset the stream before any response header, the caller got "
                          f"{outcomes[tok]!r} ({len(reqs)} transmissions)", ctx)
                await sc.api.close_pool()

    run_flavor(flavor, None, main, seed=case["seed"])
    run_flavor(flavor, None, main_rst, seed=case["seed"])
    return {"viol": viol, "counters": cnt, "sigs": sorted(sigs), "sample": None}


def run_part_c(case):
    """HTTP/1.1: the server speaks (or hangs up) while the request body is still being written. Whatever the outcome,
    the request is on the wire already: one head per call, no second connection for it."""
    flavor, ctype, mode = case["flavor"], case["ctype"], case["mode"]
    viol = []
    cnt = {"runs": 0, "faults_fired": 0, "oracle_heads_at_most_once": 0, "oracle_no_resend_after_failure": 0,
           "failed_after_bytes_sent": 0, "goaway_runs": 0, "goaway_refused_streams": 0, "goaway_resent_ok": 0,
           "server_spoke_during_upload": 0}
    sigs = set()
    sample = {}

    def v(key, what, detail):
        if not any(x["key"] == key for x in viol):
            viol.append({"key": key, "what": what, "detail": detail})

    async def main():
        for retries in (0, 2):
            for wlat in (0.0, 0.01):
                for warm in (False, True):
                    sc = Sc(ctype, flavor, max_connections=3, resp_delay=0.0, retries=retries)
                    sc.net.latency = lambda kind, idx, wlat=wlat: wlat if kind == "write" else 0.0
                    sc.net.op_budget = 3000   # a request re-sent for ever ends here, and is judged by the oracles below
                    if warm:
                        # the connection is a kept-alive one: a server that speaks first looks like one that hung up
                        CALL.set("warm")
                        await guarded(flavor, lambda: sc.api.request("GET", sc.url(), headers=[("X-Token", "warm")]))
                    for o in sc.origins:
                        o.early = True
                        orig = o.responder

                        def responder(req, o_, orig=orig):
                            resp = orig(req, o_)
                            if mode == "early-close":
                                resp.conn_close = True
                            elif mode == "close-no-response":
                                resp.truncate = 0
                            return resp
                        o.responder = responder
                    out = await guarded(flavor, lambda: one_call(sc, "post-iter", "c0"))
                    cnt["runs"] += 1
                    ctx = {"case": case, "retries": retries, "write_latency": wlat, "warm": warm}
                    heads = judge_common(sc, {"c0": out}, cnt, v, ctx)
                    if heads.get("c0"):
                        cnt["server_spoke_during_upload"] += 1
                        sigs.add(f"C|{ctype}|{mode}|{flavor}|r{retries}|w{wlat}|warm{warm}|{out.kind}")
                    if out.kind == "hang":
                        v(f"hang:server-spoke-during-upload:{mode}", f"{out!r}", ctx)
                    connects = [e for e in sc.net.events if e["ev"] == "connect.call" and e["call"] == "c0"]
                    cnt["oracle_no_resend_after_failure"] += 1
                    if len(connects) > (0 if warm else 1) + (1 if TYPE_CLASS[ctype] == "x" else 0):
                        v(f"retried-after-bytes-sent:server-spoke-during-upload:{mode}",
                          f"call c0 opened {len(connects)} connections although its request had reached the server "
                          f"(outcome {out!r})", ctx)
                    if mode == "close-no-response":
                        cnt["failed_after_bytes_sent"] += 1
                        if out.kind == "ok":
                            v(f"failure-after-bytes-sent-not-reported:server-closed-during-upload", f"{out!r}", ctx)
                    if not sample:
                        sample.update({"case": case, "outcome": repr(out), "heads": len(heads.get("c0", []))})
                    await guarded(flavor, sc.api.close_pool)

    run_flavor(flavor, None, main, seed=case["seed"])
    return {"viol": viol, "counters": cnt, "sigs": sorted(sigs), "sample": sample or None}


def run_case(case):
    return {"A": run_part_a, "B": run_part_b, "C": run_part_c, "D": run_part_d}[case["part"]](case)


def plan(tier, seed):
    cases = []
    r = random.Random(seed * 13 + 14)
    for ctype in ("h1", "h1tls", "h2", "h2pk", "fwd"):
        for shape in ("get", "post-iter"):
            for n in (1, 3):
                for retries in (0, 2):
                    for flavor in ("asyncio", "trio", "sync"):
                        if flavor == "sync" and n == 3:
                            continue
                        if tier == "quick" and retries == 2 and shape == "post-iter" and n == 3 and flavor == "trio":
                            continue
                        cases.append({"part": "A", "ctype": ctype, "shape": shape, "n": n, "retries": retries,
                                      "flavor": flavor, "tier": tier, "seed": r.randrange(1 << 30)})
                        if n == 1 and (retries == 0 or tier != "quick"):
                            # the same enumeration with the call on a kept-alive connection
                            cases.append(dict(cases[-1], warm=True, seed=r.randrange(1 << 30)))
    for ctype in ("h2", "h2pk"):
        for shape in ("get", "post-bytes", "post-iter", "post-big", "post-once"):
            for flavor in ("asyncio", "trio"):
                cases.append({"part": "B", "ctype": ctype, "shape": shape, "flavor": flavor, "tier": tier,
                              "seed": r.randrange(1 << 30),
                              "lat_seeds": [None, 1, 2] if tier == "quick" else [None] + list(range(1, 12))})
                if shape == "post-big":
                    # uploads that are sitting in their flow-control wait when the GOAWAY arrives: the server gives no
                    # upload credit on the first connection
                    cases.append(dict(cases[-1], win="hold-until-goaway", seed=r.randrange(1 << 30)))
    for ctype in ("h1", "h1tls", "maybe-h2", "tun", "socks"):
        for mode in ("early", "early-close", "close-no-response"):
            for flavor in ("asyncio", "trio", "sync"):
                cases.append({"part": "C", "ctype": ctype, "mode": mode, "flavor": flavor, "tier": tier,
                              "seed": r.randrange(1 << 30)})
    for ctype in ("h2", "h2pk"):
        for shape in ("get", "post-bytes", "post-iter", "post-big"):
            for flavor in ("asyncio", "trio", "sync"):
                cases.append({"part": "D", "ctype": ctype, "shape": shape, "flavor": flavor, "tier": tier, "seed": r.randrange(1 << 30)})
    cases.sort(key=lambda c: (c["part"] == "A", -c.get("n", 3)))
    return cases
