import sys
from .framework import worker_main

if __name__ == "__main__":
    sys.exit(worker_main(sys.argv[1:]))
