"""Server-side endpoints of the simulated network: HTTP/1.1 origin (own strict parser, no
h11), HTTP proxy (forward + CONNECT), SOCKS5 proxy (own RFC 1928/1929 parser, no socksio).
The HTTP/2 origin lives in endpoints_h2.py; `OriginConn` switches to it on the preface.

Every endpoint records what it parsed and what it sent (ground truth for the oracles)."""
from __future__ import annotations

import re
import typing

from .simnet import Net, Transport, TLSFailure

TOKEN_RE = re.compile(rb"^[!#$%&'*+\-.^_`|~0-9A-Za-z]+$")
REQLINE_RE = re.compile(rb"^([!#$%&'*+\-.^_`|~0-9A-Za-z]+) ([\x21-\x7e\x80-\xff]+) HTTP/1\.([01])$")
H2_PREFACE = b"PRI * HTTP/2.0\r\n\r\nSM\r\n\r\n"


class Req:
    """A request as parsed off the wire."""

    def __init__(self) -> None:
        self.method = b""
        self.target = b""
        self.minor = 1
        self.headers: list[tuple[bytes, bytes]] = []
        self.body = bytearray()
        self.chunk_sizes: list[int] = []
        self.framing = "none"  # none | cl | chunked
        self.complete = False
        self.tr = -1
        self.ordinal = 0
        self.layer = 0
        self.via = "direct"
        self.call = None
        self.token: bytes | None = None
        self.proto = "h1"
        self.stream_id = None
        self.t_head = 0.0
        self.tls = False
        self.tls_info = None
        self.alpn = None

    def header(self, name: bytes) -> list[bytes]:
        name = name.lower()
        return [v for k, v in self.headers if k.lower() == name]

    def summary(self) -> dict:
        return {"method": self.method.decode("latin1"), "target": self.target.decode("latin1"),
                "headers": [[k.decode("latin1"), v.decode("latin1")] for k, v in self.headers],
                "body_len": len(self.body), "framing": self.framing, "tr": self.tr,
                "ordinal": self.ordinal, "proto": self.proto}


class Resp:
    """What the origin should answer. Ground truth after serialisation is in
    .sent_headers / .body / .status / .reason."""

    def __init__(self, status: int = 200, reason: bytes = b"OK", headers=None, body: bytes = b"",
                 framing: str = "cl", interim=None, chunks=None, conn_close: bool = False,
                 delay: float = 0.0, body_delay: float = 0.0, truncate: int | None = None,
                 http10: bool = False, after: bytes = b"", early: bool = False,
                 no_body: bool = False, trailers=None) -> None:
        self.status = status
        self.reason = reason
        self.headers = list(headers or [])
        self.body = body
        self.framing = framing  # cl | chunked | close | none
        self.interim = list(interim or [])  # [(status, reason, headers)]
        self.chunks = chunks  # sizes for chunked framing
        self.conn_close = conn_close
        self.delay = delay
        self.body_delay = body_delay
        self.truncate = truncate
        self.http10 = http10
        self.after = after  # raw bytes sent straight after the head (upgrade / connect)
        self.early = early  # respond as soon as the request head is in
        self.no_body = no_body  # HEAD / 204 / 304: framing headers but no body bytes
        self.trailers = trailers
        self.sent_headers: list[tuple[bytes, bytes]] = []
        self.wire = b""
        self.head_len = 0

    def serialise(self) -> bytes:
        out = bytearray()
        for st, rs, hs in self.interim:
            out += b"HTTP/1.1 %d %b\r\n" % (st, rs)
            for k, v in hs:
                out += k + b": " + v + b"\r\n"
            out += b"\r\n"
        ver = b"HTTP/1.0" if self.http10 else b"HTTP/1.1"
        hs = list(self.headers)
        if self.framing == "cl":
            hs.append((b"Content-Length", b"%d" % len(self.body)))
        elif self.framing == "chunked":
            hs.append((b"Transfer-Encoding", b"chunked"))
        if self.conn_close:
            hs.append((b"Connection", b"close"))
        self.sent_headers = hs
        out += ver + b" %d" % self.status + b" " + self.reason + b"\r\n"
        for k, v in hs:
            out += k + b": " + v + b"\r\n"
        out += b"\r\n"
        self.head_len = len(out)
        if not self.no_body:
            if self.framing == "chunked":
                body = self.body
                sizes = list(self.chunks or ([len(body)] if body else []))
                pos = 0
                for n in sizes:
                    if n <= 0:
                        continue
                    part = body[pos:pos + n]
                    pos += n
                    if part:
                        out += b"%x\r\n" % len(part) + part + b"\r\n"
                if pos < len(body):
                    part = body[pos:]
                    out += b"%x\r\n" % len(part) + part + b"\r\n"
                out += b"0\r\n"
                for k, v in (self.trailers or []):
                    out += k + b": " + v + b"\r\n"
                out += b"\r\n"
            else:
                out += self.body
        out += self.after
        self.wire = bytes(out)
        return self.wire

    def closes(self) -> bool:
        if self.no_body and not self.conn_close and not self.http10:
            return False
        return self.conn_close or self.http10 or self.framing == "close"


class H1Parser:
    """Strict incremental HTTP/1.1 request parser written for the harness."""

    def __init__(self) -> None:
        self.buf = bytearray()
        self.state = "head"
        self.cur: Req | None = None
        self.need = 0
        self.error: str | None = None
        self.raw_head = b""

    def feed(self, data: bytes):
        self.buf += data
        events = []
        while True:
            if self.error:
                return events
            if self.state == "head":
                i = self.buf.find(b"\r\n\r\n")
                if i < 0:
                    if len(self.buf) > 1 << 20:
                        self.error = "head too large"
                        events.append(("error", self.error))
                    return events
                head = bytes(self.buf[:i])
                del self.buf[:i + 4]
                req = self._parse_head(head)
                if req is None:
                    events.append(("error", self.error))
                    return events
                self.cur = req
                events.append(("head", req))
                if req.framing == "cl":
                    self.need = int(req.header(b"content-length")[0])
                    self.state = "body" if self.need else "done"
                elif req.framing == "chunked":
                    self.state = "chunk-size"
                else:
                    self.state = "done"
            elif self.state == "body":
                if not self.buf:
                    return events
                n = min(self.need, len(self.buf))
                self.cur.body += self.buf[:n]
                del self.buf[:n]
                self.need -= n
                if self.need == 0:
                    self.state = "done"
            elif self.state == "chunk-size":
                i = self.buf.find(b"\r\n")
                if i < 0:
                    return events
                line = bytes(self.buf[:i])
                del self.buf[:i + 2]
                m = re.match(rb"^([0-9A-Fa-f]+)(;.*)?$", line)
                if not m:
                    self.error = f"bad chunk size line {line!r}"
                    events.append(("error", self.error))
                    return events
                self.need = int(m.group(1), 16)
                self.cur.chunk_sizes.append(self.need)
                self.state = "chunk-data" if self.need else "trailers"
            elif self.state == "chunk-data":
                if not self.buf:
                    return events
                n = min(self.need, len(self.buf))
                self.cur.body += self.buf[:n]
                del self.buf[:n]
                self.need -= n
                if self.need == 0:
                    self.state = "chunk-crlf"
            elif self.state == "chunk-crlf":
                if len(self.buf) < 2:
                    return events
                if self.buf[:2] != b"\r\n":
                    self.error = "missing CRLF after chunk data"
                    events.append(("error", self.error))
                    return events
                del self.buf[:2]
                self.state = "chunk-size"
            elif self.state == "trailers":
                i = self.buf.find(b"\r\n")
                if i < 0:
                    return events
                line = bytes(self.buf[:i])
                del self.buf[:i + 2]
                if line == b"":
                    self.state = "done"
            elif self.state == "done":
                self.cur.complete = True
                events.append(("end", self.cur))
                self.cur = None
                self.state = "head"
                if not self.buf:
                    return events
            elif self.state == "tunnel":
                return events

    def _parse_head(self, head: bytes) -> Req | None:
        self.raw_head = head
        lines = head.split(b"\r\n")
        m = REQLINE_RE.match(lines[0])
        if not m:
            self.error = f"bad request line {lines[0][:80]!r}"
            return None
        req = Req()
        req.method, req.target, req.minor = m.group(1), m.group(2), int(m.group(3))
        for ln in lines[1:]:
            k, sep, v = ln.partition(b":")
            if not sep or not TOKEN_RE.match(k):
                self.error = f"bad header line {ln[:80]!r}"
                return None
            if b"\r" in v or b"\n" in v or b"\x00" in v:
                self.error = f"bad header value {ln[:80]!r}"
                return None
            req.headers.append((k, v.strip(b" \t")))
        te = req.header(b"transfer-encoding")
        cl = req.header(b"content-length")
        if te:
            if len(te) != 1 or te[0].lower() != b"chunked":
                self.error = f"unsupported transfer-encoding {te!r}"
                return None
            req.framing = "chunked"
        elif cl:
            if len(set(cl)) != 1 or not cl[0].isdigit():
                self.error = f"bad content-length {cl!r}"
                return None
            req.framing = "cl"
        tok = req.header(b"x-token")
        req.token = tok[0] if tok else None
        return req


def echo_responder(req: Req, origin: "Origin") -> Resp:
    tok = req.token or b"-"
    body = b"echo:%b:tr%d:n%d:%b:" % (tok, req.tr, req.ordinal, origin.name.encode())
    body += bytes(req.body[:64])
    return Resp(200, b"OK", [(b"X-Echo", tok), (b"Server", origin.name.encode())], body)


class Origin:
    """A logical origin server (shared by all transports that reach it)."""

    def __init__(self, net: Net, host: str, port: int, tls: bool = False,
                 alpn: list[str] | None = None, responder=None, name: str | None = None,
                 register: bool = True, h2_script=None) -> None:
        self.net = net
        self.host = host
        self.port = port
        self.tls = tls
        self.alpn = alpn  # server-side supported protocols in preference order
        self.responder = responder or echo_responder
        self.name = name or f"{host}:{port}"
        self.requests: list[Req] = []
        self.responses: list[tuple[Req, Resp]] = []
        self.by_token: dict[bytes, list[tuple[Req, Resp]]] = {}
        self.conns: list = []
        self.anomalies: list[dict] = []
        self.tls_fail: str | None = None
        self.h2_script = h2_script  # options for the h2 server role
        self.idle_close_after: float | None = None  # server closes keep-alive conns
        self.early = False  # answer as soon as the request head is in
        if register:
            net.add(host, port, self.factory)

    def factory(self, net: Net, tr: Transport):
        c = OriginConn(self, tr, via="direct")
        self.conns.append(c)
        return c

    def anomaly(self, kind: str, **kw) -> None:
        rec = {"kind": kind, **kw}
        self.anomalies.append(rec)
        self.net.log("anomaly", origin=self.name, **rec)

    def record(self, req: Req, resp: Resp) -> None:
        self.responses.append((req, resp))
        if req.token is not None:
            self.by_token.setdefault(req.token, []).append((req, resp))


class OriginConn:
    """Per-transport handler of an origin: HTTP/1.1 by default, HTTP/2 on the preface."""

    def __init__(self, origin: Origin, tr: Transport, via: str) -> None:
        self.origin = origin
        self.tr = tr
        self.via = via
        self.parser = H1Parser()
        self.h2 = None
        self.first = True
        self.n = 0
        self.tls_done = False
        self.alpn = None
        self.resp_pending = False
        self.closing = False
        self.tunnel_to = None
        self.upgraded = False
        self.raw_after_upgrade = bytearray()
        self.prebuf = bytearray()
        self.cur_resp: Resp | None = None
        self.base_layers = len(tr.layers)

    # TLS ---------------------------------------------------------------------
    def on_tls(self, tr: Transport, info: dict):
        o = self.origin
        if o.tls_fail:
            raise TLSFailure(o.tls_fail)
        if o.tls is False:
            o.anomaly("tls-on-plain-origin", tr=tr.id, sni=info["sni"])
        if self.tls_done:
            o.anomaly("double-tls", tr=tr.id)
        self.tls_done = True
        offered = info["alpn_offered"] or []
        sel = None
        for p in (o.alpn or []):
            if p in offered:
                sel = p
                break
        self.alpn = sel
        return sel

    # data ----------------------------------------------------------------------
    def feed(self, tr: Transport, data: bytes) -> None:
        o = self.origin
        if self.upgraded:
            self.raw_after_upgrade += data
            hook = getattr(o, "on_upgraded_data", None)
            if hook:
                hook(self, data)
            return
        if self.h2 is not None:
            self.h2.feed(tr, data)
            return
        if self.first:
            self.prebuf += data
            if len(self.prebuf) < len(H2_PREFACE) and H2_PREFACE.startswith(bytes(self.prebuf)):
                return  # could still be the h2 preface
            data = bytes(self.prebuf)
            self.prebuf.clear()
            self.first = False
            if o.tls is True and not self.tls_done:
                o.anomaly("plaintext-to-tls-origin", tr=tr.id)
            if data.startswith(H2_PREFACE):
                from .endpoints_h2 import H2Server

                if self.alpn != "h2":
                    self.origin.net.log("h2.without-alpn", tr=tr.id, alpn=self.alpn)
                self.h2 = H2Server(self, tr)
                self.h2.feed(tr, data)
                return
        if self.closing:
            if self.parser.state != "head" or self.parser.buf:
                # remainder of the request that was answered early: keep parsing, nothing more to say
                for ev, arg in self.parser.feed(data):
                    if ev == "head":
                        o.anomaly("request-after-close", tr=tr.id, n=len(data))
                return
            o.anomaly("request-after-close", tr=tr.id, n=len(data))
            return
        if self.parser.state == "head" and not self.parser.buf and data:
            # first byte of a new request: the previous exchange must be over
            if self.resp_pending:
                o.anomaly("pipelined-before-response", tr=tr.id)
            elif tr.consumed != tr.produced:
                o.anomaly("pipelined-before-response-consumed", tr=tr.id,
                          consumed=tr.consumed, produced=tr.produced)
        for ev, arg in self.parser.feed(data):
            if ev == "error":
                o.anomaly("h1-parse-error", tr=tr.id, msg=arg, raw=bytes(self.parser.raw_head[:200]))
                tr.send(b"HTTP/1.1 400 Bad Request\r\nContent-Length: 0\r\nConnection: close\r\n\r\n")
                tr.server_close()
                self.closing = True
                return
            if ev == "head":
                req = arg
                req.tr = tr.id
                req.ordinal = self.n
                req.layer = len(tr.layers)
                req.via = self.via
                req.t_head = o.net.now()
                from .simnet import CALL
                req.call = CALL.get()
                req.tls = self.tls_done
                req.tls_info = tr.layers[-1] if (self.tls_done and tr.layers) else None
                req.alpn = self.alpn
                self.n += 1
                o.requests.append(req)
                o.net.log("req.head", origin=o.name, tr=tr.id, token=req.token, ordinal=req.ordinal,
                          layer=req.layer, method=req.method, target=req.target)
                self.resp_pending = True
                self.cur_resp = None
                if o.early:
                    resp = o.responder(req, o)
                    resp.early = True
                    self.cur_resp = resp
                    self._respond(tr, req, resp)
            elif ev == "end":
                req = arg
                o.net.log("req.end", origin=o.name, tr=tr.id, token=req.token, n=len(req.body))
                if self.cur_resp is None:
                    self._respond(tr, req, o.responder(req, o))
                self.cur_resp = None

    def _respond(self, tr: Transport, req: Req, resp: Resp) -> None:
        o = self.origin
        if req.method == b"HEAD" or resp.status in (204, 304) or 100 <= resp.status < 200:
            resp.no_body = True
            if resp.status in (204,) or resp.status < 200:
                resp.framing = "none"
        wire = resp.serialise()
        o.record(req, resp)
        self.resp_pending = False
        if getattr(resp, "raw", None) is not None:
            # fuzzing: arbitrary bytes instead of a response, then the peer goes away
            tr.send(resp.raw, resp.delay)
            tr.server_close(0.5)
            self.closing = True
            return
        if resp.truncate is not None:
            tr.send(wire[:resp.truncate], resp.delay)
            tr.server_close()
            self.closing = True
            return
        if resp.body_delay:
            tr.send(wire[:resp.head_len], resp.delay)
            tr.send(wire[resp.head_len:], resp.body_delay)
        else:
            tr.send(wire, resp.delay)
        if resp.status == 101 or (req.method == b"CONNECT" and 200 <= resp.status < 300):
            self.upgraded = True
            if self.parser.buf:
                self.raw_after_upgrade += self.parser.buf
                self.parser.buf.clear()
            return
        if resp.closes():
            tr.server_close()
            self.closing = True
        elif o.idle_close_after is not None:
            pass

    def server_idle_close(self, delay: float = 0.0) -> None:
        """Server closes this (idle) keep-alive connection."""
        self.tr.server_close(delay)
        # not 'closing' in the sense of declared close semantics: the client could not know

    def on_client_close(self, tr: Transport) -> None:
        if self.h2 is not None:
            self.h2.on_client_close(tr)


# ---------------------------------------------------------------------------------
# HTTP proxy (forward + CONNECT)
# ---------------------------------------------------------------------------------
class HTTPProxy:
    def __init__(self, net: Net, host: str, port: int, tls: bool = False, origins=None,
                 connect_reply=None, name: str | None = None) -> None:
        self.net = net
        self.host = host
        self.port = port
        self.tls = tls
        self.name = name or f"proxy:{host}:{port}"
        self.origins: dict[tuple[str, int], Origin] = {}
        for o in origins or []:
            self.origins[(o.host, o.port)] = o
        self.connect_reply = connect_reply  # fn(target bytes, req) -> Resp
        self.connects: list[dict] = []
        self.forwards: list[Req] = []
        self.anomalies: list[dict] = []
        self.conns: list = []
        self.tls_fail = None
        net.add(host, port, self.factory)

    def factory(self, net: Net, tr: Transport):
        c = ProxyConn(self, tr)
        self.conns.append(c)
        return c

    def anomaly(self, kind: str, **kw) -> None:
        rec = {"kind": kind, **kw}
        self.anomalies.append(rec)
        self.net.log("anomaly", origin=self.name, **rec)


class ProxyConn:
    def __init__(self, proxy: HTTPProxy, tr: Transport) -> None:
        self.proxy = proxy
        self.tr = tr
        self.parser = H1Parser()
        self.tls_done = False
        self.n = 0
        self.inner = None  # OriginConn once tunnelling
        self.closing = False
        self.bytes_after_refusal = 0
        self.refused = False
        self.resp_pending = False
        self.raw = bytearray()  # everything received on the proxy hop (pre-tunnel)

    def on_tls(self, tr: Transport, info: dict):
        if self.inner is not None:
            return self.inner.on_tls(tr, info)
        p = self.proxy
        if p.tls_fail:
            raise TLSFailure(p.tls_fail)
        if not p.tls:
            p.anomaly("tls-on-plain-proxy", tr=tr.id)
        if self.tls_done:
            p.anomaly("double-tls-on-proxy", tr=tr.id)
        self.tls_done = True
        return None

    def on_client_close(self, tr: Transport) -> None:
        if self.inner is not None:
            self.inner.on_client_close(tr)

    def feed(self, tr: Transport, data: bytes) -> None:
        p = self.proxy
        if self.inner is not None:
            self.inner.feed(tr, data)
            return
        if self.refused:
            self.bytes_after_refusal += len(data)
            p.anomaly("bytes-after-connect-refusal", tr=tr.id, n=len(data))
            return
        if self.closing:
            p.anomaly("request-after-close", tr=tr.id, n=len(data))
            return
        if p.tls and not self.tls_done:
            p.anomaly("plaintext-to-tls-proxy", tr=tr.id)
        self.raw += data
        if self.parser.state == "head" and not self.parser.buf and data:
            if self.resp_pending:
                p.anomaly("pipelined-before-response", tr=tr.id)
            elif tr.consumed != tr.produced:
                p.anomaly("pipelined-before-response-consumed", tr=tr.id)
        for ev, arg in self.parser.feed(data):
            if ev == "error":
                p.anomaly("h1-parse-error", tr=tr.id, msg=arg)
                tr.send(b"HTTP/1.1 400 Bad Request\r\nContent-Length: 0\r\nConnection: close\r\n\r\n")
                tr.server_close()
                self.closing = True
                return
            if ev == "head":
                req = arg
                req.tr = tr.id
                req.ordinal = self.n
                req.layer = len(tr.layers)
                self.n += 1
                self.resp_pending = True
                if req.method == b"CONNECT":
                    self._connect(tr, req)
                    if self.inner is not None or self.refused or self.closing:
                        rest = bytes(self.parser.buf)
                        self.parser.buf.clear()
                        if rest:
                            self.feed(tr, rest)
                        return
            elif ev == "end":
                req = arg
                if req.method != b"CONNECT":
                    self._forward(tr, req)

    def _connect(self, tr: Transport, req: Req) -> None:
        p = self.proxy
        target = req.target
        rec = {"tr": tr.id, "target": target, "headers": list(req.headers), "raw": bytes(self.raw),
               "layer": len(tr.layers), "status": None}
        p.connects.append(rec)
        host, _, port = target.rpartition(b":")
        origin = None
        try:
            origin = p.origins.get((host.decode("ascii").strip("[]"), int(port)))
        except ValueError:
            pass
        if p.connect_reply is not None:
            resp = p.connect_reply(target, req)
        elif origin is None:
            resp = Resp(502, b"Bad Gateway", [], b"no such origin")
        else:
            resp = Resp(200, b"Connection established", [], b"", framing="none")
        if 200 <= resp.status < 300:
            resp.framing = "none"
            resp.body = b""
        wire = resp.serialise()
        rec["status"] = resp.status
        rec["resp"] = resp
        p.net.log("proxy.connect", tr=tr.id, target=target, status=resp.status)
        self.resp_pending = False
        if getattr(resp, "raw", None) is not None:
            tr.send(resp.raw, resp.delay)
            tr.server_close(0.5)
            self.closing = True
            return
        if resp.truncate is not None:
            tr.send(wire[:resp.truncate], resp.delay)
            tr.server_close()
            self.closing = True
            return
        tr.send(wire, resp.delay)
        if 200 <= resp.status < 300:
            if origin is None:
                origin = Origin(p.net, host.decode("latin1"), 0, register=False, name="blackhole")
            self.inner = OriginConn(origin, tr, via="tunnel")
            origin.conns.append(self.inner)
            self.inner.base_layers = len(tr.layers)
        else:
            self.refused = True
            if resp.closes():
                tr.server_close()

    def _forward(self, tr: Transport, req: Req) -> None:
        p = self.proxy
        p.forwards.append(req)
        m = re.match(rb"^(http|ws)://([^/?#]*)(.*)$", req.target)
        origin = None
        if m:
            auth = m.group(2)
            host, sep, port = auth.rpartition(b":")
            if not sep or b"]" in port:
                host, port = auth, b"80"
            try:
                origin = p.origins.get((host.decode("ascii").strip("[]").lower(), int(port)))
            except ValueError:
                origin = None
        else:
            p.anomaly("forward-target-not-absolute", tr=tr.id, target=req.target)
        p.net.log("proxy.forward", tr=tr.id, target=req.target, token=req.token)
        self.resp_pending = False
        if origin is None:
            resp = Resp(502, b"Bad Gateway", [], b"no such origin")
            tr.send(resp.serialise())
            return
        req.via = "forward"
        req.proxy_ordinal = req.ordinal
        origin.requests.append(req)
        resp = origin.responder(req, origin)
        if req.method == b"HEAD" or resp.status in (204, 304):
            resp.no_body = True
        wire = resp.serialise()
        origin.record(req, resp)
        if resp.truncate is not None:
            tr.send(wire[:resp.truncate], resp.delay)
            tr.server_close()
            self.closing = True
            return
        tr.send(wire, resp.delay)
        if resp.closes():
            tr.server_close()
            self.closing = True


# ---------------------------------------------------------------------------------
# SOCKS5 proxy
# ---------------------------------------------------------------------------------
class Socks5Proxy:
    def __init__(self, net: Net, host: str, port: int, origins=None, auth=None,
                 script: dict | None = None, name: str | None = None) -> None:
        self.net = net
        self.host = host
        self.port = port
        self.name = name or f"socks:{host}:{port}"
        self.origins: dict[tuple[str, int], Origin] = {}
        for o in origins or []:
            self.origins[(o.host, o.port)] = o
        self.auth = auth  # (user, password) the server requires, or None
        self.script = script or {}
        self.sessions: list[dict] = []
        self.anomalies: list[dict] = []
        net.add(host, port, self.factory)

    def factory(self, net: Net, tr: Transport):
        return SocksConn(self, tr)

    def anomaly(self, kind: str, **kw) -> None:
        rec = {"kind": kind, **kw}
        self.anomalies.append(rec)
        self.net.log("anomaly", origin=self.name, **rec)


class SocksConn:
    def __init__(self, proxy: Socks5Proxy, tr: Transport) -> None:
        self.proxy = proxy
        self.tr = tr
        self.buf = bytearray()
        self.state = "greeting"
        self.inner = None
        self.rec = {"tr": tr.id, "methods": None, "chosen": None, "userpass": None,
                    "request": None, "reply": None, "extra_bytes": 0, "raw": b"", "failed": False}
        proxy.sessions.append(self.rec)

    def on_tls(self, tr: Transport, info: dict):
        if self.inner is not None:
            return self.inner.on_tls(tr, info)
        self.proxy.anomaly("tls-before-socks-success", tr=tr.id)
        return None

    def on_client_close(self, tr: Transport) -> None:
        if self.inner is not None:
            self.inner.on_client_close(tr)

    def feed(self, tr: Transport, data: bytes) -> None:
        p = self.proxy
        if self.inner is not None:
            self.inner.feed(tr, data)
            return
        self.rec["raw"] += data
        if self.state in ("failed", "raw"):
            self.rec["extra_bytes"] += len(data)
            if self.state == "failed":
                p.anomaly("bytes-after-socks-failure", tr=tr.id, n=len(data))
            else:
                self._raw_next(tr)
            return
        self.buf += data
        sc = p.script
        while True:
            b = self.buf
            if self.state == "greeting":
                if len(b) < 2 or len(b) < 2 + b[1]:
                    return
                if b[0] != 5:
                    p.anomaly("socks-bad-version", tr=tr.id, v=b[0])
                n = b[1]
                self.rec["methods"] = list(b[2:2 + n])
                del b[:2 + n]
                if "raw_replies" in sc:
                    self.state = "raw"
                    self.raw_i = 0
                    self._raw_next(tr)
                    return
                want = 2 if p.auth is not None else 0
                if "method_reply" in sc:
                    chosen = sc["method_reply"]
                else:
                    chosen = want if want in self.rec["methods"] else 0xFF
                self.rec["chosen"] = chosen
                tr.send(bytes([5, chosen]), sc.get("delay", 0.0))
                if chosen == 0xFF:
                    self.state = "failed"
                    self.rec["failed"] = True
                    return
                self.state = "userpass" if chosen == 2 else "request"
                if chosen not in self.rec["methods"]:
                    # server picked something not offered: client must bail out
                    self.state = "failed"
                    self.rec["failed"] = True
                    return
            elif self.state == "userpass":
                if len(b) < 2 or len(b) < 2 + b[1] + 1:
                    return
                ul = b[1]
                pl = b[2 + ul]
                if len(b) < 3 + ul + pl:
                    return
                user = bytes(b[2:2 + ul])
                pw = bytes(b[3 + ul:3 + ul + pl])
                if b[0] != 1:
                    p.anomaly("socks-bad-auth-version", tr=tr.id, v=b[0])
                del b[:3 + ul + pl]
                self.rec["userpass"] = (user, pw)
                ok = p.auth is not None and (user, pw) == tuple(p.auth)
                if "auth_reply" in sc:
                    ok = sc["auth_reply"] == 0
                    tr.send(bytes([1, sc["auth_reply"]]))
                else:
                    tr.send(bytes([1, 0 if ok else 1]))
                if not ok:
                    self.state = "failed"
                    self.rec["failed"] = True
                    return
                self.state = "request"
            elif self.state == "request":
                if len(b) < 5:
                    return
                atyp = b[3]
                if atyp == 1:
                    need = 4 + 4 + 2
                elif atyp == 4:
                    need = 4 + 16 + 2
                elif atyp == 3:
                    need = 4 + 1 + b[4] + 2
                else:
                    p.anomaly("socks-bad-atyp", tr=tr.id, atyp=atyp)
                    self.state = "failed"
                    return
                if len(b) < need:
                    return
                if b[0] != 5 or b[2] != 0:
                    p.anomaly("socks-bad-request", tr=tr.id, raw=bytes(b[:need]))
                cmd = b[1]
                if atyp == 1:
                    host = ".".join(str(x) for x in b[4:8])
                elif atyp == 4:
                    import ipaddress
                    host = str(ipaddress.IPv6Address(bytes(b[4:20])))
                else:
                    host = bytes(b[5:5 + b[4]]).decode("latin1")
                port = int.from_bytes(b[need - 2:need], "big")
                del b[:need]
                self.rec["request"] = {"cmd": cmd, "atyp": atyp, "host": host, "port": port}
                origin = p.origins.get((host.lower(), port))
                code = sc.get("reply_code")
                if code is None:
                    code = 0 if (origin is not None and cmd == 1) else 4
                self.rec["reply"] = code
                p.net.log("socks.request", tr=tr.id, host=host, port=port, code=code)
                tr.send(bytes([5, code, 0, 1, 0, 0, 0, 0, 0, 0]), sc.get("delay", 0.0))
                if code != 0:
                    self.state = "failed"
                    self.rec["failed"] = True
                    return
                if origin is None:
                    origin = Origin(p.net, host, port, register=False, name="blackhole")
                self.inner = OriginConn(origin, tr, via="socks")
                origin.conns.append(self.inner)
                rest = bytes(b)
                b.clear()
                if rest:
                    p.anomaly("bytes-pipelined-with-socks-request", tr=tr.id, n=len(rest))
                    self.inner.feed(tr, rest)
                return

    def _raw_next(self, tr: Transport) -> None:
        """Scripted raw replies (for fuzzing): one reply per client write; then EOF."""
        replies = self.proxy.script["raw_replies"]
        if self.raw_i < len(replies):
            r = replies[self.raw_i]
            self.raw_i += 1
            if r:
                tr.send(r)
            if self.raw_i >= len(replies) and self.proxy.script.get("then_close", True):
                tr.server_close()
        else:
            tr.server_close()
