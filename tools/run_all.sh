#!/bin/sh
# run every quick (or $1=thorough) check on /repo; prints one summary line per property
TIER=${1:-quick}
cd "$(dirname "$0")/.."
rc=0
for c in C01 C02 C03 C04 C05 C06 C07 C08 C09 C10 C11 C12 C13 C14 C15 C16 C17 C18 C19 C20; do
  out=$(./check $c --tier $TIER 2>&1); code=$?
  echo "$out" | grep -E "^(VIOLATION|INCONCLUSIVE|HARNESS)" | head -3
  echo "$out" | tail -1 | sed "s/$/ exit=$code/"
  [ $code -ne 0 ] && rc=1
done
exit $rc
