#!/bin/sh
# usage: tools/try_seeded.sh <seeded-id> <check> [extra ./check args]   - /repo tree + the archived patch in a scratch copy
id=$1; chk=$2; shift 2
d=$(mktemp -d /tmp/hvtry_XXXXXX)
cp -r /repo/httpcore /repo/scripts $d/ && find $d -name __pycache__ -prune -exec rm -rf {} + 
(cd $d && patch -p1 -s < /verif/seeded/$id/patch.diff) || { echo "patch failed"; rm -rf $d; exit 3; }
HV_REPO=$d HV_EVIDENCE_DIR=$d/_ev /verif/check $chk "$@" | grep -E "key=|^C[0-9]+ |INCONCLUSIVE|HARNESS" | sort | uniq -c | sort -rn | head -12
rm -rf $d
