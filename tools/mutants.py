#!/venv/bin/python
"""Sensitivity runner: apply one small source mutation at a time to a scratch copy of the
repository (outside /repo and /verif), check that the repository's own tests still pass
(optional, --tests), run the property's quick check with HV_REPO=<scratch> and report
whether it fired. Scratch copies are deleted afterwards.

usage: tools/mutants.py [--tests] [--only id,id] [--prop Cxx]
"""
import argparse
import json
import os
import shutil
import subprocess
import sys
import tempfile

VERIF = os.path.dirname(os.path.dirname(os.path.abspath(__file__)))
sys.path.insert(0, VERIF)
from tools.mutant_table import MUTANTS  # noqa: E402


def apply(root, m):
    paths = m["file"] if isinstance(m["file"], list) else [m["file"]]
    for rel in paths:
        p = os.path.join(root, rel)
        s = open(p).read()
        if m["old"] not in s:
            raise SystemExit(f"mutant {m['id']}: pattern not found in {rel}")
        s = s.replace(m["old"], m["new"], m.get("count", 1))
        open(p, "w").write(s)
    if m.get("unasync", True) and any("_async/" in r for r in paths):
        subprocess.run([sys.executable, "scripts/unasync.py"], cwd=root, check=True, capture_output=True)


def main():
    ap = argparse.ArgumentParser()
    ap.add_argument("--tests", action="store_true")
    ap.add_argument("--only")
    ap.add_argument("--prop")
    ap.add_argument("--keep", action="store_true")
    a = ap.parse_args()
    only = set(a.only.split(",")) if a.only else None
    rows = []
    for m in MUTANTS:
        if only and m["id"] not in only:
            continue
        if a.prop and a.prop not in m["props"]:
            continue
        if m.get("equivalent") and not only:
            print(f"{m['id']:28s} skipped (equivalent: {m['equivalent'][:70]}...)")
            continue
        root = tempfile.mkdtemp(prefix="hvmut_")
        try:
            for d in ("httpcore", "scripts", "tests"):
                shutil.copytree(os.path.join("/repo", d), os.path.join(root, d),
                                ignore=shutil.ignore_patterns("__pycache__"))
            for f in ("pyproject.toml", "README.md", "CHANGELOG.md"):
                shutil.copy(os.path.join("/repo", f), root)
            apply(root, m)
            tests = None
            if a.tests:
                env = dict(os.environ, PYTHONPATH=root, PYTHONDONTWRITEBYTECODE="1")
                r = subprocess.run(["/venv/bin/python", "-m", "pytest", "-q", "-x", "-p", "no:cacheprovider",
                                    "--timeout=300", "tests"], cwd=root, env=env, capture_output=True, text=True)
                tests = r.returncode == 0
            for prop in m["props"]:
                env = dict(os.environ, HV_REPO=root, HV_EVIDENCE_DIR=os.path.join(root, "_evidence"))
                r = subprocess.run([os.path.join(VERIF, "check"), prop], env=env, capture_output=True, text=True)
                fired = "VIOLATION property=" + prop in r.stdout
                keys = sorted(set(l.strip() for l in r.stdout.splitlines() if l.strip().startswith("key=")))
                rows.append((m["id"], prop, tests, fired, r.returncode, keys[:4]))
                print(f"{m['id']:28s} {prop} tests_pass={tests} fired={fired} exit={r.returncode} {keys[:3]}", flush=True)
                if not fired and os.environ.get("HV_MUT_SHOW"):
                    print(r.stdout[-2000:])
        finally:
            if not a.keep:
                shutil.rmtree(root, ignore_errors=True)
    missed = [r for r in rows if not r[3]]
    print(f"\n{len(rows) - len(missed)}/{len(rows)} detected; missed: {[r[0] + ':' + r[1] for r in missed]}")
    # restore evidence written against scratch trees? evidence is rewritten by the next real run.


if __name__ == "__main__":
    main()
