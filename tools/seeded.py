#!/venv/bin/python
"""Confirm and archive an independently written break.

usage: tools/seeded.py <id> <worktree> <property> [check ...]
  1. in the worktree: demo fails with the change, passes without; the repository's tests pass with it
  2. archive patch.diff + demo under /verif/seeded/<id>/
  3. run the given checks (default: the property's) with HV_REPO=<worktree> (change applied) and record which fire
"""
import json
import os
import shutil
import subprocess
import sys
import time

VERIF = os.path.dirname(os.path.dirname(os.path.abspath(__file__)))


def sh(cmd, cwd, env=None, timeout=1800):
    r = subprocess.run(cmd, cwd=cwd, env=env, shell=True, capture_output=True, text=True, timeout=timeout)
    return r.returncode, (r.stdout + r.stderr)


def main():
    sid, wt, prop = sys.argv[1:4]
    checks = [prop] + [c for c in sys.argv[4:] if c != prop]
    dest = os.path.join(VERIF, "seeded", sid)
    os.makedirs(dest, exist_ok=True)
    env = dict(os.environ, PYTHONPATH=wt, PYTHONDONTWRITEBYTECODE="1")
    rc, diff = sh("git diff -- httpcore", wt)
    if not diff.strip():
        raise SystemExit("no change in worktree")
    open(os.path.join(dest, "patch.diff"), "w").write(diff)
    demos = [f for f in os.listdir(wt) if f.startswith("demo_break")]
    for f in demos:
        shutil.copy(os.path.join(wt, f), dest)
    demo = "demo_break.py"
    runner = "-m pytest -q -p no:cacheprovider --timeout=600" if "def test_" in open(os.path.join(wt, demo)).read() else ""
    cmd = f"/venv/bin/python {runner} {demo}"
    rc_with, out_with = sh(cmd, wt, env)
    sh("git diff -- httpcore > /tmp/seeded_%s.diff && git checkout -- httpcore" % sid, wt)
    rc_without, out_without = sh(cmd, wt, env)
    sh("git apply /tmp/seeded_%s.diff && rm /tmp/seeded_%s.diff" % (sid, sid), wt)
    rc_tests, out_tests = sh("/venv/bin/python -m pytest -q -p no:cacheprovider --timeout=900 tests", wt, env)
    results = {}
    # run the checks against the CURRENT /repo tree with the change applied (the worktree may predate later repairs of
    # /repo, whose absence would make a check fire for an unrelated reason); fall back to the worktree if the patch
    # does not apply any more
    import tempfile
    target = tempfile.mkdtemp(prefix="hvseed_")
    for d in ("httpcore", "scripts"):
        shutil.copytree(os.path.join("/repo", d), os.path.join(target, d), ignore=shutil.ignore_patterns("__pycache__"))
    rc_p, _ = sh(f"patch -p1 -s < {os.path.join(VERIF, 'seeded', sid, 'patch.diff')}", target)
    applied_to = "current /repo tree + patch"
    if rc_p != 0:
        shutil.rmtree(target, ignore_errors=True)
        target, applied_to = wt, "the worktree (patch no longer applies to the current tree)"
    for c in checks:
        t0 = time.time()
        rc, out = sh(f"{VERIF}/check {c}", VERIF, dict(os.environ, HV_REPO=target, HV_EVIDENCE_DIR="/tmp/hv_seed_evidence"))
        keys = sorted({l.strip()[4:] for l in out.splitlines() if l.strip().startswith("key=")})
        results[c] = {"exit": rc, "fired": f"VIOLATION property={c}" in out, "keys": keys[:8], "wall_s": round(time.time() - t0, 1),
                      "summary": out.strip().splitlines()[-1] if out.strip() else ""}
    if target != wt:
        shutil.rmtree(target, ignore_errors=True)
    meta = {
        "id": sid, "property": prop, "checks_ran_against": applied_to,
        "demo_cmd": f"cd <worktree> && PYTHONPATH=<worktree> {cmd}",
        "demo_fails_with_change": rc_with != 0, "demo_passes_without_change": rc_without == 0,
        "demo_tail_with": out_with.strip().splitlines()[-1:] , "demo_tail_without": out_without.strip().splitlines()[-1:],
        "repo_tests_pass_with_change": rc_tests == 0, "repo_tests_tail": out_tests.strip().splitlines()[-1:],
        "checks_run": results,
        "ran": "tools/seeded.py: demo with/without the change in the scratch worktree, the repository's test-suite with the change, "
               "then the listed quick checks with HV_REPO=<worktree with the change applied>",
    }
    old = {}
    mp = os.path.join(dest, "meta.json")
    if os.path.exists(mp):
        old = json.load(open(mp))
    for k in ("breaks", "needs_to_manifest", "notes"):
        if k in old:
            meta[k] = old[k]
    json.dump(meta, open(mp, "w"), indent=1)
    print(json.dumps({k: meta[k] for k in ("demo_fails_with_change", "demo_passes_without_change", "repo_tests_pass_with_change")}))
    for c, r in results.items():
        print(c, "fired=%s exit=%s %s" % (r["fired"], r["exit"], r["keys"][:4]), r["summary"])


if __name__ == "__main__":
    main()
