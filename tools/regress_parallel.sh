#!/bin/sh
# all archived breaks against their own checks, four partitions side by side (ids are spread round-robin)
cd "$(dirname "$0")/.."
ids=$(ls seeded | sort)
i=0
for p in 0 1 2 3; do : > /tmp/regress_part_$p.txt; done
for id in $ids; do echo $id >> /tmp/regress_part_$((i % 4)).txt; i=$((i + 1)); done
for p in 0 1 2 3; do (HV_JOBS=8 tools/seeded_regress.py $(cat /tmp/regress_part_$p.txt) > /tmp/regress_out_$p.txt 2>&1 &) ; done
sleep 5
while pgrep -f seeded_regress.py > /dev/null; do sleep 10; done
cat /tmp/regress_out_*.txt | grep -E "MISSED|does not apply|skipped|caught by|marginal"
