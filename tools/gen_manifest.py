#!/venv/bin/python
import json
import os
import sys

VERIF = os.path.dirname(os.path.dirname(os.path.abspath(__file__)))
sys.path.insert(0, VERIF)
from hv.registry import CHECKS, NOT_YET  # noqa: E402

props = [json.loads(l) for l in open(os.path.join(VERIF, "properties.jsonl"))]
checks = []
na = []
for p in props:
    pid = p["id"]
    c = CHECKS.get(pid)
    if c is None:
        na.append({"property_id": pid, "reason": NOT_YET.get(pid, "check not built yet (work in progress)")})
        continue
    checks.append({
        "property_id": pid,
        "quick_cmd": f"./check {pid} --tier quick",
        "thorough_cmd": f"./check {pid} --tier thorough",
        "evidence_file": f"/verif/evidence/{pid}.json",
        "replay_cmd_template": f"./check {pid} --replay {{path}}",
        "engine": "hv",
        "level_claimed": {"category": c["category"], "text": c["text"], "design_ref": c["design_ref"]},
        "level_note": c["note"],
        "technique": c["technique"],
    })
m = {
    "version": 1,
    "setup_cmd": "true",
    "hooks": {
        "guard": "HTTPCORE_VERIF",
        "enable": "no source hooks: all observation goes through the public NetworkBackend/NetworkStream interface, pool.connections/repr and stdlib instrumentation (sys.monitoring, replaced threading/time names); checks import /repo's working tree directly (HV_REPO)",
        "baseline_off_cmd": "cd /repo && /venv/bin/python -m pytest -q -p no:cacheprovider --timeout=900",
        "source_commits": [],
        "add_only": True,
    },
    "engines": [{"name": "hv", "path": "/verif/hv", "serves_properties": [c["property_id"] for c in checks],
                 "kind_free_text": "runtime monitoring: simulated network + virtual time + fault/cancellation injection + controlled thread scheduler, oracles over recorded ledgers"}],
    "checks": checks,
    "not_applicable": na,
    "notes": "Verdicts are three-valued: exit 0 held on what was observed, exit 1 VIOLATION, exit 2 INCONCLUSIVE (deciding monitor never reached / harness error). Known findings: /verif/known_findings.json.",
}
json.dump(m, open(os.path.join(VERIF, "MANIFEST.json"), "w"), indent=1)
print(f"{len(checks)} checks, {len(na)} not claimed")
