#!/bin/sh
# usage: tools/with_patch.sh <patch.diff> <check> [args...]  - runs ./check against a scratch copy of /repo with the patch applied
set -e
P=$(realpath "$1"); shift
D=$(mktemp -d /tmp/hvpatch_XXXXXX)
trap 'rm -rf "$D"' EXIT
cp -r /repo/httpcore /repo/scripts /repo/pyproject.toml /repo/README.md /repo/CHANGELOG.md "$D"/ 2>/dev/null
(cd "$D" && git init -q . && git apply --3way "$P" 2>/dev/null || (cd "$D" && patch -p1 -s < "$P"))
cd "$(dirname "$0")/.."
HV_REPO="$D" ./check "$@"
