#!/venv/bin/python
"""Re-run every archived independently written break (seeded/<id>/patch.diff) against the CURRENT /repo tree:
copy /repo, apply the patch, run the quick check of the break's own property with HV_REPO=<copy>, report which fire.
usage: tools/seeded_regress.py [id ...]"""
import json
import os
import shutil
import subprocess
import sys
import tempfile

VERIF = os.path.dirname(os.path.dirname(os.path.abspath(__file__)))


def main():
    only = set(sys.argv[1:])
    rows = []
    for sid in sorted(os.listdir(os.path.join(VERIF, "seeded"))):
        if only and sid not in only:
            continue
        d = os.path.join(VERIF, "seeded", sid)
        meta = json.load(open(os.path.join(d, "meta.json")))
        prop = meta["property"]
        if meta.get("no_longer_breaks"):
            print(f"{sid:8s} {prop} skipped: {meta['no_longer_breaks'][:100]}")
            continue
        target = tempfile.mkdtemp(prefix="hvseed_")
        try:
            for sub in ("httpcore", "scripts"):
                shutil.copytree(os.path.join("/repo", sub), os.path.join(target, sub), ignore=shutil.ignore_patterns("__pycache__"))
            p = subprocess.run(f"patch -p1 -s < {os.path.join(d, 'patch.diff')}", shell=True, cwd=target, capture_output=True, text=True)
            if p.returncode != 0:
                rows.append((sid, prop, "PATCH-DOES-NOT-APPLY", []))
                print(f"{sid:8s} {prop} patch does not apply to the current tree: {p.stdout.strip()[:120]}")
                continue
            r = subprocess.run([os.path.join(VERIF, "check"), prop, "--tier", "quick"], cwd=VERIF, capture_output=True, text=True,
                               env=dict(os.environ, HV_REPO=target, HV_EVIDENCE_DIR=os.path.join(target, "_evidence")))
            keys = sorted({l.strip()[4:] for l in r.stdout.splitlines() if l.strip().startswith("key=")})
            fired = f"VIOLATION property={prop}" in r.stdout
            import re
            m = re.search(r"violations=(\d+)", r.stdout)
            nviol = int(m.group(1)) if m else -1   # number of cases (not keys) that reported: 1-2 means a marginal detection
            rows.append((sid, prop, "fired" if fired else f"MISSED(exit={r.returncode})", keys[:6], nviol))
            print(f"{sid:8s} {prop} {'fired ' if fired else 'MISSED'} exit={r.returncode} cases={nviol} {keys[:4]}", flush=True)
        finally:
            shutil.rmtree(target, ignore_errors=True)
    n = len(rows)
    ok = sum(1 for r in rows if r[2] == "fired")
    print(f"\n{ok}/{n} caught by the quick check of their own property (VERIF_SEED={os.environ.get('VERIF_SEED', '0')}); "
          f"others: {[(r[0], r[2]) for r in rows if r[2] != 'fired']}")
    print("marginal (reported by <= 2 cases):", [(r[0], r[4]) for r in rows if r[2] == "fired" and len(r) > 4 and 0 <= r[4] <= 2])


if __name__ == "__main__":
    main()
